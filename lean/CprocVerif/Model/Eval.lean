import CprocVerif.Spec.CInt

/-!
# Model/Eval — executable model of `/repo/eval.c` and of the constant-expression consumers

A transliteration of `cast`, `unary`, `binary`, `istrue`, `eval` (eval.c), of `intconstexpr`, of the
constant shortcut of `condexpr`, of the `TNUMBER` case of `primaryexpr` and of `inttype` (expr.c).

* The 64-bit member `u.constant.u` is a `Nat < 2^64`; `u.constant.i` is its two's-complement
  reading `toI`; `u.constant.f` is the same 8 bytes read as a `double`: the union is modelled by
  the two functions `FloatOps.ofBits / FloatOps.bits`, every floating operation is a field of the
  structure `FloatOps` (uninterpreted in theorems, native doubles in the driver).
* `+ - *` and comparisons are computed on `Nat`/`Int` with explicit reduction modulo `2^64`;
  `& | ^ << >>` and the mask / sign-extension idioms of `cast` use the `Nat` bit operations.
* A type is what `eval.c` looks at: `prop & PROPINT` with `size` and `issigned`, `prop & PROPFLOAT`
  with `size`, `kind == TYPEPOINTER`, `kind == TYPEBOOL`, or anything else.  `_Bool` is a `PROPINT`
  type of size 1, unsigned (`INTTYPE(TYPEBOOL, 1, false, 0)`): everything except the conversion
  TO `_Bool` (`EXPRCAST` with `t->kind == TYPEBOOL`) treats it as an 8-bit unsigned type.
* Results that are not values: `Expr.error` = `error()` was called (exit status 1),
  `Expr.bad` = `fatal("internal error …")` or an operation undefined on the host (not reachable
  from trees the parser builds; see `undefined_left_unfolded`).
-/

namespace CprocVerif.Eval
open CprocVerif.CInt (BinOp)

def W : Nat := 2 ^ 64

/-- What eval.c distinguishes about `struct type`. -/
inductive Ty
  | int (size : Nat) (signed : Bool)   -- PROPINT (incl. enum types), except:
  | bool                               -- TYPEBOOL (PROPINT, size 1, unsigned)
  | flt (size : Nat)                   -- PROPFLOAT: 4, 8, 16
  | ptr                                -- TYPEPOINTER
  | other                              -- void, struct, nullptr_t, ...
deriving DecidableEq, Repr, Inhabited

/-- How a C integer type `(bits, signed)` appears to eval.c: `size` in bytes (1 for `_Bool`). -/
def tyOf (t : CprocVerif.CInt.IntTy) : Ty := if t.bits = 1 then .bool else .int (t.bits / 8) t.signed

def Ty.isInt : Ty → Bool | .int _ _ => true | .bool => true | _ => false
def Ty.isFlt : Ty → Bool | .flt _ => true | _ => false
def Ty.isSigned : Ty → Bool | .int _ s => s | _ => false

/-- The floating-point side of the host: `F` is the host `double`. -/
structure FloatOps (F : Type) where
  ofBits : Nat → F            -- read the 8 bytes of the union as `double`
  bits : F → Nat              -- and back (`< 2^64`)
  add : F → F → F
  sub : F → F → F
  mul : F → F → F
  div : F → F → F
  neg : F → F
  lt : F → F → Bool
  le : F → F → Bool
  eq : F → F → Bool
  ofInt : Int → F             -- `(double)i` / `(double)u` of the mathematical value
  ofIntF32 : Int → F          -- `(float)i` / `(float)u`: one rounding, widened back to `double`
  toInt : F → Int             -- truncation; only used inside the range checks of `eval`
  toF32 : F → F               -- `(float)x` widened back to `double`

/-! ## `u.constant.i` -/

/-- two's-complement reading of the 64-bit pattern (`u.constant.i`). -/
def toI (x : Nat) : Int := if x < 2 ^ 63 then (x : Int) else (x : Int) - 2 ^ 64

/-- storing a `long long` into the union. -/
def ofI (i : Int) : Nat := (i % 2 ^ 64).toNat

/-! ## `cast` -/

/-- `-1ull >> CHAR_BIT * sizeof(unsigned long long) - size * 8` -/
def mask (size : Nat) : Nat := (2 ^ 64 - 1) >>> (64 - size * 8)

/-- integer branch of `cast`. -/
def castInt (size : Nat) (signed : Bool) (x : Nat) : Nat :=
  let x1 := x &&& mask size
  if signed then
    let m := 1 <<< (size * 8 - 1)
    ((x1 ^^^ m) + W - m) % W          -- `(u ^ m) - m` on unsigned long long
  else x1

/-- `cast(expr)`: normalise the constant `x` to the node's type. -/
def cast {F} (ops : FloatOps F) (ty : Ty) (x : Nat) : Nat :=
  match ty with
  | .flt size => if size = 4 then ops.bits (ops.toF32 (ops.ofBits x)) else x
  | .int size signed => castInt size signed x
  | .bool => castInt 1 false x
  | _ => x

/-! ## `unary`, `binary` -/

def b2n (b : Bool) : Nat := if b then 1 else 0

/-- `unary(expr, TSUB, l)`; `lty` = type of the operand, `ty` = type of the node. -/
def unaryNeg {F} (ops : FloatOps F) (lty ty : Ty) (l : Nat) : Nat :=
  cast ops ty (if lty.isFlt then ops.bits (ops.neg (ops.ofBits l)) else (W - l) % W)

/-- The `switch` of `binary` before the final `cast`.  `none`: the host operation is undefined
(`/ %` by zero, `LLONG_MIN / -1`, `LLONG_MIN % -1`) or `fatal("unknown binary expression")`. -/
def binaryRaw {F} (ops : FloatOps F) (op : BinOp) (lty : Ty) (l r : Nat) : Option Nat :=
  let fl := ops.ofBits l
  let fr := ops.ofBits r
  match lty with
  | .flt _ =>                                 -- op |= F
    match op with
    | .mul => some (ops.bits (ops.mul fl fr))
    | .div => some (ops.bits (ops.div fl fr))
    | .add => some (ops.bits (ops.add fl fr))
    | .sub => some (ops.bits (ops.sub fl fr))
    | .lt => some (b2n (ops.lt fl fr))
    | .gt => some (b2n (ops.lt fr fl))
    | .le => some (b2n (ops.le fl fr))
    | .ge => some (b2n (ops.le fr fl))
    | .eq => some (b2n (ops.eq fl fr))
    | .ne => some (b2n (!ops.eq fl fr))
    | _ => none
  | _ =>
    let s := lty.isSigned                     -- op |= S
    match op with
    | .mul => some (l * r % W)
    | .div => if s then
                (if r = 0 ∨ (toI l = -(2 ^ 63) ∧ toI r = -1) then none
                 else some (ofI (Int.tdiv (toI l) (toI r))))
              else (if r = 0 then none else some (l / r))
    | .mod => if s then
                (if r = 0 ∨ (toI l = -(2 ^ 63) ∧ toI r = -1) then none
                 else some (ofI (Int.tmod (toI l) (toI r))))
              else (if r = 0 then none else some (l % r))
    | .add => some ((l + r) % W)
    | .sub => some ((l + W - r) % W)
    | .shl => some (l <<< (r &&& 63) % W)
    | .shr => if s then some (ofI (toI l >>> (r &&& 63))) else some (l >>> (r &&& 63))
    | .band => some (l &&& r)
    | .bor => some (l ||| r)
    | .bxor => some (l ^^^ r)
    | .lt => some (b2n (if s then decide (toI l < toI r) else decide (l < r)))
    | .gt => some (b2n (if s then decide (toI l > toI r) else decide (l > r)))
    | .le => some (b2n (if s then decide (toI l ≤ toI r) else decide (l ≤ r)))
    | .ge => some (b2n (if s then decide (toI l ≥ toI r) else decide (l ≥ r)))
    | .eq => some (b2n (decide (l = r)))
    | .ne => some (b2n (decide (l ≠ r)))
    | .lor | .land => none

/-- `binary(expr, op, l, r)`: `lty` = `l->type`, `ty` = `expr->type`. -/
def binary {F} (ops : FloatOps F) (op : BinOp) (lty : Ty) (l r : Nat) (ty : Ty) : Option Nat :=
  (binaryRaw ops op lty l r).map (cast ops ty)

/-- the guard in `eval` for `TDIV`/`TMOD`: "leave operations undefined on the host unfolded". -/
def divGuard (lty : Ty) (l r : Nat) : Bool :=
  lty.isInt && (decide (r = 0) || (lty.isSigned && decide (toI r = -1) && decide (toI l = -(2 ^ 63))))

/-- Outcome of the folding step of `eval` for a binary node with two constant operands. -/
inductive Fold
  | folded (u : Nat)
  | unfolded          -- the node stays an `EXPRBINARY` (not a constant expression)
  | hostUB            -- the compiler itself would execute an undefined operation
deriving DecidableEq, Repr

/-- the `TDIV/TMOD` and `default` cases of `eval` on constant operands. -/
def foldBin {F} (ops : FloatOps F) (op : BinOp) (lty : Ty) (l r : Nat) (ty : Ty) : Fold :=
  if (op = .div ∨ op = .mod) ∧ divGuard lty l r = true then .unfolded
  else match binary ops op lty l r ty with
    | some u => .folded u
    | none => .hostUB

/-- `istrue`. -/
def istrue {F} (ops : FloatOps F) (ty : Ty) (x : Nat) : Bool :=
  if ty.isFlt then !ops.eq (ops.ofBits x) (ops.ofInt 0) else decide (x ≠ 0)

/-! ## Expressions and `eval` -/

inductive UOp | addr | deref | neg
deriving DecidableEq, Repr

inductive Expr
  | const (ty : Ty) (u : Nat)                       -- EXPRCONST
  | enumc (ty : Ty) (u : Nat)                       -- EXPRIDENT of a DECLCONST
  | obj (ty : Ty) (name : String)                   -- EXPRIDENT of anything else
  | str (ty : Ty) (id : Nat)                        -- EXPRSTRING
  | compound (ty : Ty) (static : Bool) (id : Nat)   -- EXPRCOMPOUND
  | unary (op : UOp) (ty : Ty) (base : Expr)        -- EXPRUNARY: TBAND, TMUL, TSUB
  | cast (ty : Ty) (base : Expr)                    -- EXPRCAST
  | binary (op : BinOp) (ty : Ty) (l r : Expr)      -- EXPRBINARY
  | cond (ty : Ty) (c t f : Expr)                   -- EXPRCOND (never folded by `eval`)
  | opaque (ty : Ty) (id : Nat)                     -- call, assignment, ++/--, comma, ...
  | error                                           -- `error()` was called
  | bad                                             -- host undefined behaviour
deriving DecidableEq, Repr, Inhabited

def Expr.ty : Expr → Ty
  | .const t _ | .enumc t _ | .obj t _ | .str t _ | .compound t _ _ | .unary _ t _ | .cast t _
  | .binary _ t _ _ | .cond t _ _ _ | .opaque t _ => t
  | .error | .bad => .other

def Expr.isConst : Expr → Bool | .const _ _ => true | _ => false
def Expr.isBinary : Expr → Bool | .binary _ _ _ _ => true | _ => false
def Expr.isFail : Expr → Bool | .error | .bad => true | _ => false

/-- `EXPRCAST` with a constant operand `l` of type `lty`, to type `t`. -/
def castConst {F} (ops : FloatOps F) (lty t : Ty) (l : Nat) : Expr :=
  if t = .bool then
    .const t (cast ops t (b2n (istrue ops lty l)))              -- `t->kind == TYPEBOOL`
  else if lty.isInt = true ∧ t.isFlt = true then
    let v : Int := if lty.isSigned then toI l else (l : Int)
    .const t (cast ops t (ops.bits (if t = .flt 4 then ops.ofIntF32 v else ops.ofInt v)))
  else if lty.isFlt = true ∧ t.isInt = true then
    let f := ops.ofBits l
    if t.isSigned then
      (if ops.le (ops.ofInt (-(2 ^ 63))) f && ops.lt f (ops.ofInt (2 ^ 63))
       then .const t (cast ops t (ofI (ops.toInt f))) else .error)
    else
      (if ops.lt (ops.ofInt (-1)) f && ops.lt f (ops.ofInt (2 ^ 64))      -- `f > -1.0 && f < 0x1p64`
       then .const t (cast ops t (ofI (ops.toInt f))) else .error)
  else .const t (cast ops t l)

/-- the `TADD`/`TSUB` case of `eval` once both operands are evaluated (`l r` = `expr->u.binary.l/r`). -/
def evalAddSub {F} (ops : FloatOps F) (op : BinOp) (ty : Ty) (l r : Expr) : Expr :=
  let swapped := op = .add ∧ r.isBinary = true       -- `c = l, l = r, r = c`, also in the node
  let l1 := if swapped then r else l
  let r1 := if swapped then l else r
  match r1 with
  | .const rty ru =>
    match l1 with
    | .const lty lu =>
      (match binary ops op lty lu ru ty with
       | some u => .const ty u
       | none => .bad)
    | .binary .add .ptr ll (.const c1ty c1) =>
      /- `(P + C1) ± C2 -> P + (C1 ± C2)`: `binary(expr->u.binary.r, …)` writes the sum into the
      constant node `r` (type `rty`), the flags come from the type of `C1`. -/
      (match binary ops op c1ty c1 ru rty with
       | some u => .binary .add ty ll (.const rty u)
       | none => .bad)
    | _ => .binary op ty l1 r1
  | _ => .binary op ty l1 r1

def eval {F} (ops : FloatOps F) : Expr → Expr
  | .const t u => .const t u
  | .enumc t u => .const t u
  | .obj t n => .obj t n
  | .str t i => .str t i
  | .compound t st i => if st then .obj t (".Lcompound." ++ toString i) else .compound t st i
  | .opaque t i => .opaque t i
  | .cond t c a b => .cond t c a b
  | .error => .error
  | .bad => .bad
  | .unary op t base =>
    let l := eval ops base
    if l.isFail then l else
    match op with
    | .addr =>
      (match l with
       | .unary .deref _ b => b              -- `&*e`: `expr = eval(l->base)` (already evaluated, idempotent)
       | .str sty i => .unary .addr t (.obj sty (".Lstring." ++ toString i))
       | _ => .unary .addr t l)
    | .deref => .unary .deref t l
    | .neg =>
      (match l with
       | .const lty u => .const t (unaryNeg ops lty t u)
       | _ => .unary .neg t l)
  | .cast t base =>
    let l := eval ops base
    if l.isFail then l else
    match l with
    | .const lty u => castConst ops lty t u
    | _ =>
      if l.ty = .ptr ∧ (t = .ptr ∨ t = .int 8 true ∨ t = .int 8 false) then l
      else .cast t l
  | .binary op t a b =>
    let l := eval ops a
    let r := eval ops b
    if l.isFail then l else if r.isFail then r else
    match op with
    | .add | .sub => evalAddSub ops op t l r
    | .lor | .land =>
      (match l with
       | .const lty lu =>
         if istrue ops lty lu != (op == .lor) then
           (match r with
            | .const rty ru => .const t (b2n (istrue ops rty ru))
            | _ => .binary op t l r)
         else .const t (b2n (istrue ops lty lu))
       | _ => .binary op t l r)
    | _ =>
      (match l, r with
       | .const lty lu, .const _ ru =>
         (match foldBin ops op lty lu ru t with
          | .folded u => .const t u
          | .unfolded => .binary op t l r
          | .hostUB => .bad)
       | _, _ => .binary op t l r)

/-! ## Parser-side consumers -/

/-- `exprconvert` (type identity stands for `typecompatible`). -/
def convert (e : Expr) (t : Ty) : Expr := if e.ty = t then e else .cast t e

/-- `condexpr` after both branches were brought to the common type `t`: the constant shortcut
(`PROPARITH` condition: integer or floating). -/
def condexpr {F} (ops : FloatOps F) (c l r : Expr) (t : Ty) : Expr :=
  match eval ops c with
  | .const cty u =>
    if cty.isInt = true ∨ cty.isFlt = true then convert (if istrue ops cty u then l else r) t
    else .cond t (.const cty u) l r
  | .error => .error
  | .bad => .bad
  | c' => .cond t c' l r

/-- `intconstexpr(s, allowneg)`: `none` = `error()`. -/
def intconstexpr {F} (ops : FloatOps F) (e : Expr) (allowneg : Bool) : Option Nat :=
  match eval ops e with
  | .const t u =>
    if t.isInt then
      (if !allowneg && t.isSigned && decide (u >>> 63 ≠ 0) then none else some u)
    else none
  | _ => none

/-! ## Integer literals: `primaryexpr` (`TNUMBER`), `strtoull`, `inttype`, `typehasint` -/

def digitVal (c : Char) : Option Nat :=
  if '0' ≤ c ∧ c ≤ '9' then some (c.toNat - '0'.toNat)
  else if 'a' ≤ c ∧ c ≤ 'z' then some (c.toNat - 'a'.toNat + 10)
  else if 'A' ≤ c ∧ c ≤ 'Z' then some (c.toNat - 'A'.toNat + 10)
  else none

def isDigitOf (base : Nat) (c : Char) : Bool :=
  match digitVal c with
  | some d => decide (d < base)
  | none => false

/-- longest prefix of digits valid in `base`, as digit values, and the rest. -/
def takeDigits (base : Nat) : List Char → List Nat × List Char
  | [] => ([], [])
  | c :: cs =>
    match digitVal c with
    | some d => if d < base then ((d :: (takeDigits base cs).1), (takeDigits base cs).2) else ([], c :: cs)
    | none => ([], c :: cs)

def numVal (base : Nat) (ds : List Nat) : Nat := ds.foldl (fun a d => a * base + d) 0

/-- the optional `0x`/`0X` that `strtoull` skips for base 16 (only when a hex digit follows). -/
def skipHexPrefix (src : List Char) (base : Nat) : List Char :=
  match src with
  | '0' :: x :: c :: rest =>
    if base = 16 ∧ (x = 'x' ∨ x = 'X') ∧ isDigitOf 16 c = true then c :: rest else src
  | _ => src

/-- `strtoull(src, &end, base)` for `base ∈ {2, 8, 10, 16}` on a pp-number (no white space, no
sign): `none` when no conversion is performed (`end == src`); result = (value saturated at
`ULLONG_MAX`, `errno == ERANGE`, rest). -/
def strtoull (src : List Char) (base : Nat) : Option (Nat × Bool × List Char) :=
  let r := takeDigits base (skipHexPrefix src base)
  if r.1 = [] then none else some (min (numVal base r.1) (W - 1), decide (W ≤ numVal base r.1), r.2)

open CprocVerif.CInt (LitTy)

/-- `limits[]` of `inttype`: type, suffixes. -/
def limits : List (LitTy × String × Option String) :=
  [(.int, "", none), (.uint, "u", none), (.long, "l", none), (.ulong, "ul", some "lu"),
   (.llong, "ll", none), (.ullong, "ull", some "llu")]

def litSize : LitTy → Nat
  | .int | .uint => 4
  | _ => 8
def litSigned : LitTy → Bool
  | .int | .long | .llong => true
  | _ => false

/-- `typehasint(t, i, false)`. -/
def typehasint (size : Nat) (signed : Bool) (i : Nat) : Bool :=
  decide (i ≤ (2 ^ 64 - 1) >>> (((8 - size) <<< 3) + (if signed then 1 else 0)))

/-- the search loop `for (; i < LEN(limits); i += step)` with fuel = number of entries. -/
def inttypeLoop (val : Nat) (step : Nat) : Nat → Nat → Option LitTy
  | 0, _ => none
  | fuel + 1, i =>
    match limits[i]? with
    | none => none
    | some (t, _, _) =>
      if typehasint (litSize t) (litSigned t) val then some t else inttypeLoop val step fuel (i + step)

def toLower (c : Char) : Char := if 'A' ≤ c ∧ c ≤ 'Z' then Char.ofNat (c.toNat + 32) else c

/-- `inttype(val, decimal, end)`: `none` = `error()`. -/
def inttype (val : Nat) (decimal : Bool) (suffix : List Char) : Option LitTy :=
  let e := String.ofList (suffix.map toLower)
  match limits.findIdx? (fun (_, e1, e2) => e == e1 || e2 == some e) with
  | none => none                                   -- invalid integer constant suffix
  | some i =>
    let step := if i % 2 = 1 ∨ decimal then 2 else 1
    inttypeLoop val step 6 i

inductive Lit
  | int (v : Nat) (t : LitTy)
  | floating                 -- handed to `strtod` (not modelled)
  | error
deriving DecidableEq, Repr

/-- base of a pp-number: `0x`/`0X` → 16, `0b`/`0B` → 2, other leading `0` → 8, else 10. -/
def baseOf (tok : List Char) : Nat :=
  match tok with
  | c0 :: rest =>
    if c0 = '0' then
      (match rest with
       | c :: _ => if c = 'x' ∨ c = 'X' then 16 else if c = 'b' ∨ c = 'B' then 2 else 8   -- `tolower(tok.lit[1])`
       | [] => 8)
    else 10
  | [] => 10

/-- `strpbrk(tok.lit, base == 16 ? ".pP" : ".eE")`: the token is a floating constant. -/
def isFloatChar (base : Nat) (c : Char) : Bool :=
  if base = 16 then (c == '.' || c == 'p' || c == 'P') else (c == '.' || c == 'e' || c == 'E')

def hasFloatChar (tok : List Char) (base : Nat) : Bool := tok.any (isFloatChar base)

/-- the `TNUMBER` case of `primaryexpr`. -/
def parseNumber (tok : List Char) : Lit :=
  let base := baseOf tok
  if hasFloatChar tok base then .floating
  else
    let src := if base = 2 then tok.drop 2 else tok
    match strtoull src base with
    | none => .error                             -- invalid integer constant
    | some (v, erange, rest) =>
      if erange then .error                      -- integer constant is too large
      else match inttype v (base == 10) rest with
        | some t => .int v t
        | none => .error

end CprocVerif.Eval

/-!
# Model of `/repo/init.c` (`initadd`, `parseinit` and its cursor) and of `/repo/qbe.c:emitdata`

Three parts, each a transliteration of the C code as it is *now* (defects included):

* **(a) `initadd`** — the singly linked `struct init` list with the `last` cursor.  A list cell is an
  `Init {start, stop, before, after, val}` (`stop` is the C field `end`); its bit range is
  `[lo, hi) = [8·start + before, 8·stop − after)`.  `initaddGo` is the `for` loop of `initadd`
  starting at some list position; `IList` is the list split at `p->last`; `initadd` (from the head)
  is what every theorem is stated with; `IList.add` is the cursor version the parser uses.
* **(b) `emitdata`** — `collapse` is the inner `while` loop (a string initialiser followed by
  initialisers nested in it is patched in place), `emitFlat` the outer loop with the `offset` and
  cross-byte `bits` accumulators, `Item.cells` the bytes that QBE lays down for each data item.
* **(c) `parseinit`** — the cursor machine over `obj[32]` (`subobj`, `findmember`, `designator`,
  `focus`, `advance`) driven by an abstract initialiser tree instead of the token stream.

Numbers are `Nat`; where the C code computes in `unsigned long long` and the wrap matters
(the `bits` accumulator) the model reduces modulo `2^64` explicitly.
-/

namespace CprocVerif.Init

/-! ## Shared data -/

/-- What `init->expr` is after `eval` (only what `emitdata`/`dataitem` look at). -/
inductive Val where
  /-- `EXPRCONST` of integer or pointer type of size `w` bytes; `u` is `constant.u` (64 bits). -/
  | int (w : Nat) (u : Nat)
  /-- `EXPRCONST` of floating type of size `w`; `bits` is the IEEE encoding at that size. -/
  | flt (w : Nat) (bits : Nat)
  /-- address constant `&sym` (`off = 0`) or `&sym + off`. -/
  | addr (sym : String) (off : Nat)
  /-- `EXPRSTRING`: element width in bytes and the `string.size` elements (terminator included). -/
  | str (w : Nat) (chars : List Nat)
  /-- anything else (not a constant expression). -/
  | other
deriving DecidableEq, Repr, Inhabited

/-- `struct init` (without `next`).  `stop` is the field `end`. -/
structure Init where
  start : Nat
  stop : Nat
  before : Nat
  after : Nat
  val : Val
deriving DecidableEq, Repr, Inhabited

/-- first bit of the initialised range: `start * 8 + bits.before`. -/
def Init.lo (i : Init) : Nat := i.start * 8 + i.before
/-- one past the last bit: `end * 8 - bits.after`. -/
def Init.hi (i : Init) : Nat := i.stop * 8 - i.after

/-! ## (a) `initadd` -/

/-- The `for` loop of `initadd` walking the list from some position: returns the cells that stay
in front of `new` and the cells that follow it (`new->next`). -/
def initaddGo (new : Init) : List Init → List Init × List Init
  | [] => ([], [])
  | old :: rest =>
    if old.hi ≤ new.lo then
      (old :: (initaddGo new rest).1, (initaddGo new rest).2)
    else if new.hi ≤ old.lo then
      -- no overlap, insert before `old`
      ([], old :: rest)
    else if new.lo ≤ old.lo ∧ old.hi ≤ new.hi then
      -- replace any initializers that `new` covers: `do old = old->next; while (old && …)`
      ([], rest.dropWhile (fun o => o.hi ≤ new.hi))
    else
      -- `old` covers `new`, keep looking
      (old :: (initaddGo new rest).1, (initaddGo new rest).2)

/-- `initadd` when `p->last == &p->init` (search from the head). -/
def initadd (l : List Init) (new : Init) : List Init :=
  (initaddGo new l).1 ++ new :: (initaddGo new l).2

/-- The list split at `p->last`: `pre` are the cells in front of `*p->last`. -/
structure IList where
  pre : List Init := []
  post : List Init := []
deriving Repr, Inhabited

def IList.toList (l : IList) : List Init := l.pre ++ l.post

/-- `initadd(p, new)`: search from `p->last`, then `p->last = &new->next`. -/
def IList.add (l : IList) (new : Init) : IList :=
  { pre := l.pre ++ (initaddGo new l.post).1 ++ [new], post := (initaddGo new l.post).2 }

/-- `p->last = &p->init` (done by `designator`). -/
def IList.reset (l : IList) : IList := { pre := [], post := l.toList }

/-- is the cell inside the byte range `[start, stop)`?  (the test of `initclear`) -/
def Init.within (i : Init) (start stop : Nat) : Bool := start ≤ i.start && i.stop ≤ stop

/-- `initclear` on a plain list: drop every cell lying inside `[start, stop)`. -/
def initclear (l : List Init) (start stop : Nat) : List Init := l.filter (fun i => !i.within start stop)

/-- `initclear(p)` for the sub-object `[start, stop)`; ends with `p->last = &p->init`. -/
def IList.clear (l : IList) (start stop : Nat) : IList := { pre := [], post := initclear l.toList start stop }

/-- What `parseinit` does to the list, in order. -/
inductive Ev where
  | add (i : Init)
  | clear (start stop : Nat)
deriving DecidableEq, Repr, Inhabited

def applyEv (l : List Init) : Ev → List Init
  | .add i => initadd l i
  | .clear a b => initclear l a b

/-! ## (b) `emitdata` -/

/-- One data item as printed. -/
inductive Item where
  /-- `z n` -/
  | z (n : Nat)
  /-- `b|h|w|l v` for an integer/pointer constant of `w` bytes (`v` printed with `%llu`/`%u`) -/
  | num (w : Nat) (v : Nat)
  /-- `s s_…` / `d d_…` -/
  | flt (w : Nat) (bits : Nat)
  /-- `l $sym + off` -/
  | addr (sym : String) (off : Nat)
  /-- string: the elements printed (already truncated to the array) and the `, z pad` that follows -/
  | str (w : Nat) (chars : List Nat) (pad : Nat)
deriving DecidableEq, Repr, Inhabited

/-- A byte of the image: a known value, or byte `k` of the address `sym + addend`. -/
inductive Cell where
  | byte (n : Nat)
  | rel (sym : String) (addend : Nat) (k : Nat)
deriving DecidableEq, Repr, Inhabited

/-- `n` little-endian bytes of `v`. -/
def leBytes (v : Nat) : Nat → List Cell
  | 0 => []
  | n + 1 => Cell.byte (v % 256) :: leBytes (v / 256) n

def relCells (sym : String) (addend : Nat) (k : Nat) : Nat → List Cell
  | 0 => []
  | n + 1 => Cell.rel sym addend k :: relCells sym addend (k + 1) n

/-- The bytes QBE lays down for an item. -/
def Item.cells : Item → List Cell
  | .z n => List.replicate n (Cell.byte 0)
  | .num w v => leBytes v w
  | .flt w b => leBytes b w
  | .addr s o => relCells s o 0 8
  | .str w cs pad => cs.flatMap (fun c => leBytes c w) ++ List.replicate pad (Cell.byte 0)

def bytes (items : List Item) : List Cell := items.flatMap Item.cells

/-- The body of the inner `while` loop of `emitdata`: with `i = (init->start - cur->start) / w`,
a string shorter than `i + 1` elements is first extended with zeros to the `(end - start) / w`
elements of the array, then `string.data[i] = init->expr->u.constant.u` (stored in an element of
`w` bytes; only for `w` 1, 2, 4). -/
def patch (cur x : Init) : Init :=
  match cur.val, x.val with
  | .str w cs, .int _ u =>
    let i := (x.start - cur.start) / w
    let cs1 := if i ≥ cs.length then cs ++ List.replicate ((cur.stop - cur.start) / w - cs.length) 0 else cs
    if w = 1 ∨ w = 2 ∨ w = 4 then
      { cur with val := .str w (cs1.set i (u % 2 ^ (8 * w))) }
    else { cur with val := .str w cs1 }
  | _, _ => cur

/-- The two `assert`s of the inner loop. -/
def patchOk (cur x : Init) : Bool :=
  match cur.val, x.val with
  | .str _ _, .int _ _ => true
  | _, _ => false

/-- The inner `while` loop: every cell that starts before the end of `cur` is folded into `cur`.
`pend` is `cur`. -/
def collapse : Option Init → List Init → List Init
  | none, [] => []
  | some c, [] => [c]
  | none, x :: xs => collapse (some x) xs
  | some c, x :: xs =>
    if x.lo < c.hi then collapse (some (patch c x)) xs else c :: collapse (some x) xs

/-- Do the `assert`s of the inner loop hold along the way? -/
def collapseOk : Option Init → List Init → Bool
  | _, [] => true
  | none, x :: xs => collapseOk (some x) xs
  | some c, x :: xs =>
    if x.lo < c.hi then patchOk c x && collapseOk (some (patch c x)) xs else collapseOk (some x) xs

/-- `for (offset = start; offset < end; ++offset, bits >>= 8) printf("b %u, ", (unsigned)bits & 0xff)`:
the items and the final `bits`. -/
def bitBytes (bits : Nat) : Nat → List Item × Nat
  | 0 => ([], bits)
  | n + 1 => (Item.num 1 (bits % 256) :: (bitBytes (bits / 256) n).1, (bitBytes (bits / 256) n).2)

/-- `dataitem(cur->expr, cur->end - cur->start)` preceded by the type letter; `none` = the
"initializer is not a constant expression" error. -/
def dataitem (v : Val) (size : Nat) : Option Item :=
  match v with
  | .int w u => some (.num w u)
  | .flt w b => some (.flt w b)
  | .addr s o => some (.addr s o)
  | .str w cs =>
    -- `for (i = 0; i < string.size && i * w < size; ++i)`; then `if (i * w < size) z (size - i*w)`
    let n := min cs.length ((size + w - 1) / w)
    some (.str w (cs.take n) (size - n * w))
  | .other => none

structure EmitSt where
  offset : Nat := 0
  bits : Nat := 0
deriving Repr, Inhabited

/-- The two `if (offset < start …)` statements: an unfinished bit-field byte is flushed, the gap up
to `start` is zero-filled.  Returns the items and the new `bits`. -/
def emitGap (st : EmitSt) (start : Nat) : List Item × Nat :=
  let flush := decide (st.offset < start) && decide (st.bits ≠ 0)
  let it1 := if flush then [Item.num 1 (st.bits % 2 ^ 32)] else []
  let offset1 := if flush then st.offset + 1 else st.offset
  let bits1 := if flush then 0 else st.bits
  (it1 ++ (if offset1 < start then [Item.z (start - offset1)] else []), bits1)

/-- The `if (cur->bits.before || cur->bits.after) … else …` statement: the items and the new
`bits`; `none` when an `assert` fails or `dataitem` reports a non-constant initialiser. -/
def emitVal (bits1 : Nat) (cur : Init) (start stop : Nat) : Option (List Item × Nat) :=
  if cur.before ≠ 0 ∨ cur.after ≠ 0 then
    match cur.val with
    | .int _ u =>
      -- `bits |= u << before % 8`, the byte loop, `bits &= 0x7f >> (after + 7) % 8`
      let r := bitBytes ((bits1 ||| (u <<< (cur.before % 8))) % 2 ^ 64) (stop - start)
      some (r.1, r.2 &&& (0x7f >>> ((cur.after + 7) % 8)))
    | _ => none     -- assert(cur->expr->kind == EXPRCONST) / PROPINT
  else
    match dataitem cur.val (cur.stop - cur.start) with
    | some it => some ([it], bits1)
    | none => none

/-- One iteration of the outer `while (init)` loop body after the inner loop, for `cur`:
`start = cur->start + before / 8`, `end = cur->end - (after + 7) / 8`, …, `offset = end`. -/
def emitOne (st : EmitSt) (cur : Init) : Option (List Item × EmitSt) :=
  let start := cur.start + cur.before / 8
  let stop := cur.stop - (cur.after + 7) / 8
  match emitVal (emitGap st start).2 cur start stop with
  | some (its, bits) => some ((emitGap st start).1 ++ its, { offset := stop, bits := bits })
  | none => none

/-- The outer loop over the collapsed list, then the code after it. -/
def emitFlat (size : Nat) (st : EmitSt) : List Init → Option (List Item)
  | [] =>
    let it := if st.bits ≠ 0 then [Item.num 1 (st.bits % 2 ^ 32)] else []
    let offset := if st.bits ≠ 0 then st.offset + 1 else st.offset
    if offset ≤ size then      -- assert(offset <= d->type->size)
      some (it ++ (if offset < size then [Item.z (size - offset)] else []))
    else none
  | cur :: rest =>
    match emitOne st cur with
    | some (its, st') =>
      match emitFlat size st' rest with
      | some more => some (its ++ more)
      | none => none
    | none => none

/-- `emitdata(d, init)` for an object of `size` bytes: the item list, or `none` when an `assert`
fails or `dataitem` reports a non-constant initialiser. -/
def emitdata (size : Nat) (l : List Init) : Option (List Item) :=
  if collapseOk none l then emitFlat size {} (collapse none l) else none

/-- The item list when there is one, `[]` otherwise (convenient for statements). -/
def emitItems (size : Nat) (l : List Init) : List Item := (emitdata size l).getD []

/-! ## (c) `parseinit` -/

/-- Scalar kinds: integer types carry the identity `cls` of the basic type
(1 `char`, 2 `signed char`, 3 `unsigned char` — these three have `PROPCHAR` —, 4 `short`,
5 `unsigned short`, 6 `int`, 7 `unsigned`, 8 `long`, 9 `unsigned long`, 10 `long long`,
11 `unsigned long long`, 12 `_Bool`). -/
inductive SK where
  | int (cls : Nat) (signed : Bool)
  | flt
  | ptr
deriving DecidableEq, Repr, Inhabited

mutual
  /-- Object types as `parseinit` sees them.  An array has `n` elements; the outermost array of
  unknown size is `array 0 e` together with the flag passed to `parseinit`. -/
  inductive Ty where
    | scalar (size : Nat) (k : SK)
    | array (n : Nat) (elem : Ty)
    | agg (isUnion : Bool) (tag : Nat) (size : Nat) (ms : Members)
  /-- `struct member` list: name (`none` = anonymous struct/union member), type, offset of the
  member (of the storage unit for a bit-field), `bits.before`, `bits.after`, `next`. -/
  inductive Members where
    | nil
    | cons (name : Option String) (ty : Ty) (off before after : Nat) (next : Members)
end

instance : Inhabited Ty := ⟨.scalar 0 .ptr⟩
instance : Inhabited Members := ⟨.nil⟩

def Ty.size : Ty → Nat
  | .scalar s _ => s
  | .array n e => n * e.size
  | .agg _ _ s _ => s

def Members.length : Members → Nat
  | .nil => 0
  | .cons _ _ _ _ _ r => r.length + 1

/-- Constant expressions as the generator describes them. -/
inductive Expr where
  /-- arithmetic constant: value converted to an integer type is `i`, to `_Bool` is `nz`, to
  `float`/`double` has the encodings `f32`/`f64` -/
  | num (i : Int) (nz : Bool) (f32 f64 : Nat)
  /-- address constant -/
  | addr (sym : String) (off : Nat)
  /-- string literal: element width, class of the element type, elements with terminator -/
  | str (w : Nat) (cls : Nat) (chars : List Nat)
  /-- expression of struct/union type `tag` -/
  | agg (tag : Nat)
  /-- scalar expression that is not constant -/
  | nonconst
deriving DecidableEq, Repr, Inhabited

inductive Desig where
  | idx (n : Nat)
  | fld (name : String)
deriving DecidableEq, Repr, Inhabited

mutual
  inductive Ini where
    | expr (e : Expr)
    | list (items : Items)
  inductive Items where
    | nil
    | cons (ds : List Desig) (i : Ini) (rest : Items)
end

instance : Inhabited Ini := ⟨.list .nil⟩

/-- `exprassign(expr, t)` followed by `eval`, for a scalar `t` of `size` bytes: the value stored.
`none` = `exprassign` rejects the expression. -/
def convScalar (size : Nat) (k : SK) (e : Expr) : Option Val :=
  match e, k with
  | .num i nz _ _, .int cls signed =>
    if cls = 12 then some (.int size (if nz then 1 else 0))
    else
      let v := (i % (2 ^ (8 * size) : Nat)).toNat
      -- `cast`: truncate to the size, sign-extend into the 64-bit `constant.u`
      some (.int size (if signed ∧ 2 ^ (8 * size - 1) ≤ v then v + 2 ^ 64 - 2 ^ (8 * size) else v))
  | .num _ _ f32 f64, .flt => some (.flt size (if size = 4 then f32 else f64))
  | .num i _ _ _, .ptr => some (.int size (i % (2 ^ 64 : Nat)).toNat)
  | .addr s o, .ptr => some (.addr s o)
  | .addr s o, .int _ _ => if size = 8 then some (.addr s o) else some .other
  | .addr _ _, .flt => none
  | .str _ _ _, .ptr => some (.addr "@str" 0)
  | .str _ _ _, _ => none
  | .agg _, _ => none
  | .nonconst, _ => some .other

/-- `u` of `struct object`: never written, a member pointer, or an array offset. -/
inductive U where
  | none
  | mem (m : Members)
  | idx (i : Nat)
deriving Inhabited

/-- `struct object`. -/
structure Slot where
  offset : Nat := 0
  ty : Ty := default
  u : U := .none
  iscur : Bool := false
deriving Inhabited

inductive Err where
  /-- `error(...)`/`fatal(...)`: diagnostic, exit status 1 -/
  | diag (msg : String)
  /-- the C code reads an indeterminate or stale `u` (undefined behaviour) or fails an `assert` -/
  | undef (what : String)
deriving DecidableEq, Repr, Inhabited

/-- `struct initparser` plus the two mutable fields of the outermost type. -/
structure St where
  obj : Nat → Slot := fun _ => {}
  sub : Nat := 0
  cur : Option Nat := none
  /-- `t->size` of the outermost type -/
  top : Nat := 0
  /-- `t->incomplete` of the outermost type -/
  inc : Bool := false
  il : IList := {}
  /-- every `mkinit` (and every `initclear`) in order -/
  log : List Ev := []
  /-- a designator went through an anonymous member (for classification only) -/
  anon : Bool := false
deriving Inhabited

def St.setSlot (st : St) (k : Nat) (s : Slot) : St :=
  { st with obj := fun i => if i = k then s else st.obj i }

/-- `t->size` for the type of slot `k` (slot 0 holds the outermost type). -/
def St.tsize (st : St) (k : Nat) : Nat := if k = 0 then st.top else (st.obj k).ty.size
/-- `t->incomplete` for the type of slot `k`. -/
def St.tinc (st : St) (k : Nat) : Bool := k = 0 && st.inc

/-- `subobj(p, t, off)`. -/
def subobj (st : St) (t : Ty) (off : Nat) : Except Err St :=
  let off := off + (st.obj st.sub).offset
  if st.sub + 1 = 32 then .error (.diag "internal error: too many designators")
  else
    let s := st.obj (st.sub + 1)
    .ok ({ st with sub := st.sub + 1 }.setSlot (st.sub + 1) { s with ty := t, offset := off, iscur := false })

mutual
  /-- `findmember(p, name)` with `p->sub->type == t`. -/
  def findTy (name : String) : Ty → St → Except Err (Option St)
    | .agg _ _ _ ms, st => findMs name ms st
    | _, _ => .ok none
  def findMs (name : String) : Members → St → Except Err (Option St)
    | .nil, _ => .ok none
    | .cons (some n) ty off b a next, st =>
      if n = name then
        let s := st.obj st.sub
        match subobj (st.setSlot st.sub { s with u := .mem (.cons (some n) ty off b a next) }) ty off with
        | .ok st' => .ok (some st')
        | .error e => .error e
      else findMs name next st
    | .cons none ty off b a next, st =>
      let s := st.obj st.sub
      match subobj (st.setSlot st.sub { s with u := .mem (.cons none ty off b a next) }) ty off with
      | .error e => .error e
      | .ok st1 =>
        match findTy name ty st1 with
        | .error e => .error e
        | .ok (some st2) => .ok (some { st2 with anon := true })
        | .ok none => findMs name next { st1 with sub := st1.sub - 1 }
end

/-- one designator of `designator()`'s loop. -/
def desigStep (st : St) (d : Desig) : Except Err St :=
  let s := st.obj st.sub
  match d, s.ty with
  | .idx n, .array _ e =>
    let idx := n * e.size
    let st1 := st.setSlot st.sub { s with u := .idx idx }
    if idx ≥ st.tsize st.sub then
      if !st.tinc st.sub then .error (.diag "index designator is larger than array length")
      else subobj { st1 with top := idx + e.size } e idx
    else subobj st1 e idx
  | .idx _, _ => .error (.diag "index designator is only valid for array types")
  | .fld name, .agg _ _ _ ms =>
    match findMs name ms st with
    | .error e => .error e
    | .ok (some st') => .ok st'
    | .ok none => .error (.diag "has no member named")
  | .fld _, _ => .error (.diag "member designator only valid for struct/union types")

/-- `designator(s, p)` for a non-empty designator list. -/
def designator (st : St) (ds : List Desig) : Except Err St :=
  ds.foldlM desigStep { st with il := st.il.reset, sub := st.cur.getD 0 }

/-- `focus(p)`. -/
def focus (st : St) : Except Err St :=
  let s := st.obj st.sub
  match s.ty with
  | .array _ e =>
    let st1 := st.setSlot st.sub { s with u := .idx 0 }
    subobj (if st.tinc st.sub then { st1 with top := e.size } else st1) e 0
  | .agg _ _ _ (.cons n ty off b a next) =>
    subobj (st.setSlot st.sub { s with u := .mem (.cons n ty off b a next) }) ty off
  | .agg _ _ _ .nil => .error (.undef "focus: struct without members")
  | .scalar _ _ => .error (.diag "internal error: init cursor has unexpected type")

/-- `advance(p)`; `fuel` bounds the `for (;;)` loop (each round pops one slot). -/
def advance : Nat → St → Except Err St
  | 0, _ => .error (.undef "advance: below obj[0]")
  | fuel + 1, st =>
    if st.sub = 0 then .error (.undef "advance: below obj[0]") else
    let k := st.sub - 1
    let st := { st with sub := k }
    let s := st.obj k
    let tooMany : Except Err St :=
      if some k = st.cur then .error (.diag "too many initializers for type") else advance fuel st
    match s.ty with
    | .array _ e =>
      match s.u with
      | .idx i =>
        let i := i + e.size
        let st1 := st.setSlot k { s with u := .idx i }
        if i = st.tsize k then
          if !st.tinc k then
            if some k = st1.cur then .error (.diag "too many initializers for type") else advance fuel st1
          else subobj { st1 with top := st.top + e.size } e i
        else subobj st1 e i
      | _ => .error (.undef "advance: array slot without index")
    | .agg false _ _ _ =>
      match s.u with
      | .mem (.cons _ _ _ _ _ next) =>
        let st1 := st.setSlot k { s with u := .mem next }
        match next with
        | .cons _ ty off _ _ _ => subobj st1 ty off
        | .nil =>
          if some k = st1.cur then .error (.diag "too many initializers for type") else advance fuel st1
      | _ => .error (.undef "advance: struct slot without member pointer")
    | _ => tooMany

/-- bits of the member the cursor came through (`p.sub[-1].u.mem->bits`). -/
def curBits (st : St) : Except Err (Nat × Nat) :=
  if st.sub = 0 then .ok (0, 0) else
  match (st.obj (st.sub - 1)).ty with
  | .agg _ _ _ _ =>
    match (st.obj (st.sub - 1)).u with
    | .mem (.cons _ _ _ b a _) => .ok (b, a)
    | _ => .error (.undef "add: parent without member pointer")
  | _ => .ok (0, 0)

/-- What the `for (;;) { switch … focus(&p); }` loop decides for expression `e` at the cursor. -/
inductive Hit where
  | add (v : Val)
  | down
deriving Inhabited

def isChar (cls : Nat) : Bool := cls = 1 || cls = 2 || cls = 3

def hit (st : St) (e : Expr) : Except Err (Hit × St) :=
  match (st.obj st.sub).ty, e with
  | .array _ (.scalar _ (.int cls _)), .str w scls cs =>
    if !(isChar cls && isChar scls) && cls ≠ scls then
      .error (.diag "cannot initialize array with string literal of different width")
    else
      .ok (.add (.str w cs), if st.tinc st.sub then { st with top := w * cs.length } else st)
  | .array _ _, _ => .ok (.down, st)
  | .agg _ tag _ _, .agg etag => if tag = etag then .ok (.add .other, st) else .ok (.down, st)
  | .agg _ _ _ _, _ => .ok (.down, st)
  | .scalar size k, e =>
    match convScalar size k e with
    | some v => .ok (.add v, st)
    | none => .error (.diag "exprassign: incompatible initializer")

/-- the expression branch of the main loop: descend with `focus` until the expression fits, then
`add:`.  `fuel` bounds the descent (each `focus` pushes a slot, at most 32). -/
def placeExpr : Nat → St → Expr → Except Err St
  | 0, _, _ => .error (.undef "placeExpr: fuel")
  | fuel + 1, st, e =>
    match hit st e with
    | .error er => .error er
    | .ok (.down, st1) =>
      match focus st1 with
      | .error er => .error er
      | .ok st2 => placeExpr fuel st2 e
    | .ok (.add v, st1) =>
      match curBits st1 with
      | .error er => .error er
      | .ok (b, a) =>
        let s := st1.obj st1.sub
        let i : Init := ⟨s.offset, s.offset + st1.tsize st1.sub, b, a, v⟩
        .ok { st1 with il := st1.il.add i, log := st1.log ++ [.add i] }

/-- `p.cur = p.cur == p.obj ? NULL : p.cur - 1` repeated `while (p.cur && !p.cur->iscur)`. -/
def prevCur (st : St) : Nat → Option Nat
  | 0 => none
  | k + 1 => if (st.obj k).iscur then some k else prevCur st k

/-- the part of the main loop in front of the initializer: designator / advance / focus. -/
def preStep (st : St) (ds : List Desig) : Except Err St :=
  match st.cur with
  | none => .ok st
  | some c =>
    if ds ≠ [] then designator st ds
    else if st.sub ≠ c then advance 33 st
    else
      match (st.obj c).ty with
      | .agg _ _ _ _ => focus st
      | _ => .ok st

/-- `p.sub = p.cur; do p.cur = …; while (…)` at a closing brace, then the `incomplete = false` at
the top of the inner `for (;;)`. -/
def closeBrace (st : St) : St :=
  let c := st.cur.getD 0
  let st := { st with sub := c, cur := prevCur st c }
  if st.tinc st.sub then { st with inc := false } else st

/-- right after `consume(TLBRACE)`:
`if (p.cur && !p.sub->type->incomplete && !(p.sub->type->prop & PROPSCALAR)) initclear(&p);` -/
def braceClear (st : St) : St :=
  let s := st.obj st.sub
  let isScalar := match s.ty with | .scalar _ _ => true | _ => false
  if st.cur.isSome && !st.tinc st.sub && !isScalar then
    { st with il := st.il.clear s.offset (s.offset + st.tsize st.sub),
              log := st.log ++ [.clear s.offset (s.offset + st.tsize st.sub)] }
  else st

mutual
  /-- one initializer (with its designation) of the main loop, up to the point where the loop
  looks for `,` or `}`. -/
  def parseItem (st : St) (ds : List Desig) : Ini → Except Err St
    | .expr e =>
      match preStep st ds with
      | .error er => .error er
      | .ok st1 =>
        match placeExpr 34 st1 e with
        | .error er => .error er
        | .ok st2 => .ok (if st2.tinc st2.sub then { st2 with inc := false } else st2)
    | .list .nil =>
      match preStep st ds with
      | .error er => .error er
      | .ok st1 =>
        let st1 := braceClear st1
        -- empty braces at the start of an array's list initialize its first element:
        -- `if (p.cur == p.sub && p.cur->type->kind == TYPEARRAY) focus(&p);`
        let entered : Except Err St :=
          if st1.cur = some st1.sub then
            match (st1.obj st1.sub).ty with
            | .array _ _ => focus st1
            | _ => .ok st1
          else .ok st1
        match entered with
        | .error er => .error er
        | .ok st2 =>
          if st2.tinc st2.sub then .error (.diag "array of unknown size has empty initializer")
          else .ok st2
    | .list (.cons ds1 i1 rest) =>
      match preStep st ds with
      | .error er => .error er
      | .ok st1 =>
        let st1 := braceClear st1
        let entered : Except Err St :=
          if st1.cur = some st1.sub then
            match (st1.obj st1.sub).ty with
            | .scalar _ _ => .error (.diag "nested braces around scalar initializer")
            | .array _ _ => focus st1
            | .agg _ _ _ _ => .error (.undef "assert(p.cur->type->kind == TYPEARRAY)")
          else .ok st1
        match entered with
        | .error er => .error er
        | .ok st2 =>
          let s := st2.obj st2.sub
          let st3 := { st2 with cur := some st2.sub }.setSlot st2.sub { s with iscur := true }
          match parseItems st3 (.cons ds1 i1 rest) with
          | .error er => .error er
          | .ok st4 => .ok (closeBrace st4)
  /-- the initializers of one brace-enclosed list, left to right. -/
  def parseItems (st : St) : Items → Except Err St
    | .nil => .ok st
    | .cons ds i rest =>
      match parseItem st ds i with
      | .error er => .error er
      | .ok st1 => parseItems st1 rest
end

/-- `parseinit(s, t)`: `inc` says that `t` is an array of unknown size. -/
def parseinit (t : Ty) (inc : Bool) (i : Ini) : Except Err St :=
  match t, inc with
  | .array _ e, _ =>
    if e.size = 0 then .error (.diag "initializer specified for variable length array type")
    else parseItem { obj := fun _ => { ty := t }, top := t.size, inc := inc } [] i
  | _, true => .error (.diag "initializer specified for incomplete type")
  | _, false => parseItem { obj := fun _ => { ty := t }, top := t.size, inc := inc } [] i

end CprocVerif.Init

import CprocVerif.Model.Tree

/-!
# Accept / reject decisions composed from the component models (property C10)

`qbe.c:switchcase` called for the case constants of one `switch` in source order: each constant is
converted to the promoted controlling type (`caseKey`), inserted with `treeinsert`, and
`error("multiple 'case' labels with same value")` ends the compilation when the node is not new.
-/

namespace CprocVerif.Accept
open CprocVerif.Tree

/-- `none` = the diagnostic; `some t` = the tree of `struct switchcases` after the last label -/
def switchCases (size : Nat) (signed : Bool) : T → List Nat → Option T
  | t, [] => some t
  | t, c :: cs =>
    if (ins t (caseKey size signed c)).2.2 then switchCases size signed (ins t (caseKey size signed c)).1 cs
    else none

end CprocVerif.Accept

-- Root of the CprocVerif library: imports every property file (and through them the models).
import CprocVerif.Props.C01
import CprocVerif.Props.C02
import CprocVerif.Props.C03
import CprocVerif.Props.C04
import CprocVerif.Props.C05
import CprocVerif.Props.C06
import CprocVerif.Props.C07
import CprocVerif.Props.C08
import CprocVerif.Props.C09
import CprocVerif.Props.C13
import CprocVerif.Props.C14
import CprocVerif.Props.C15
import CprocVerif.Props.C16
import CprocVerif.Props.C17
import CprocVerif.Props.C18
import CprocVerif.Props.C19
import CprocVerif.Props.C20

-- Root of the CprocVerif library: imports every property file (and through them the models).
import CprocVerif.Props.C15

import CprocVerif.Spec.Qbe
import CprocVerif.Spec.QbeParse
import CprocVerif.Spec.QbeWf
import CprocVerif.Spec.QbeLink
import CprocVerif.Spec.QbeLibc
/-! Driver for property C02: run a multi-module IL program (stage 2 of cproc) under the formal IL
    semantics with the mini C library of `Spec/QbeLibc.lean`.

    drv_c02 run --module a.ssa … [--file vpath=hostpath]… [--stdin hostpath] [--stdout-to f]
            [--stderr-to f] [--fuel N] -- argv0 args…
    drv_c02 externs --module a.ssa …      (symbols no module defines, and which the library lacks)
    drv_c02 wf --module a.ssa …           (wf of the linked program, incl. cross-module calls) -/

open CprocVerif.Qbe

structure Opts where
  modules : Array String := #[]
  files : Array (String × String) := #[]
  stdin : Option String := none
  stdoutTo : Option String := none
  stderrTo : Option String := none
  fuel : Nat := 20000000000
  argv : List String := []

def parseOpts : List String → Opts → Except String Opts
  | [], o => .ok o
  | "--" :: rest, o => .ok { o with argv := rest }
  | "--module" :: m :: rest, o => parseOpts rest { o with modules := o.modules.push m }
  | "--file" :: f :: rest, o =>
    match f.splitOn "=" with
    | [v, h] => parseOpts rest { o with files := o.files.push (v, h) }
    | _ => .error ("bad --file " ++ f)
  | "--stdin" :: f :: rest, o => parseOpts rest { o with stdin := some f }
  | "--stdout-to" :: f :: rest, o => parseOpts rest { o with stdoutTo := some f }
  | "--stderr-to" :: f :: rest, o => parseOpts rest { o with stderrTo := some f }
  | "--fuel" :: n :: rest, o => parseOpts rest { o with fuel := n.toNat?.getD o.fuel }
  | a :: _, _ => .error ("unknown option " ++ a)

def loadModules (paths : Array String) : IO (Except String (List Module)) := do
  let mut ms : Array Module := #[]
  for p in paths do
    try
      let bytes ← IO.FS.readBinFile p
      match parseModuleBytes bytes with
      | .ok m => ms := ms.push m
      | .error e => return .error (p ++ ": " ++ e)
    catch e => return .error ("cannot read " ++ p ++ ": " ++ (toString e).replace "\n" " ")
  return .ok ms.toList

/-- bytes of a Latin-1 trace entry (without its tag) -/
def unLatin1 (s : String) (acc : ByteArray) : ByteArray :=
  (s.drop 1).toString.foldl (fun b c => b.push c.toNat.toUInt8) acc

def collect (trace : Array String) : ByteArray × ByteArray × List String :=
  trace.foldl (fun (acc : ByteArray × ByteArray × List String) e =>
    if e.startsWith "o" then (unLatin1 e acc.1, acc.2.1, acc.2.2)
    else if e.startsWith "e" then (acc.1, unLatin1 e acc.2.1, acc.2.2)
    else (acc.1, acc.2.1, e :: acc.2.2)) (ByteArray.empty, ByteArray.empty, [])

def cmdRun (o : Opts) : IO UInt32 := do
  let out ← IO.getStdout
  match (← loadModules o.modules) with
  | .error e => out.putStrLn ("broken parse: " ++ e); return 2
  | .ok ms =>
    let mut files : List (String × ByteArray) := []
    for (v, h) in o.files do
      try
        files := files ++ [(v, ← IO.FS.readBinFile h)]
      catch e => out.putStrLn ("broken cannot read " ++ h ++ ": " ++ (toString e).replace "\n" " "); return 2
    let stdin ← match o.stdin with
      | some h => (try IO.FS.readBinFile h catch _ => pure ByteArray.empty)
      | none => pure ByteArray.empty
    let env := Libc.envModule files stdin o.argv
    match linkModules (ms ++ [env]) with
    | .error e => out.putStrLn ("broken " ++ e); return 2
    | .ok linked =>
      match Libc.prepare (Prog.ofModule linked) with
      | .error e => out.putStrLn ("broken " ++ e); return 2
      | .ok (p, ctx) =>
        let ext := Libc.libcExt p ctx
        let argvAddr := (p.symAddr["__libc_argv"]?).getD 0
        let nparams := match p.funcs["main"]? with
          | some fi => fi.f.params.length
          | none => 2
        let args : List (Ty × RVal) :=
          ([(.base .w, ⟨.w, o.argv.length.toUInt64⟩), (.base .l, ⟨.l, argvAddr.toUInt64⟩)] :
            List (Ty × RVal)).take nparams
        let (oc, steps) := Libc.runMain p ext "main" args o.fuel
        let (so, se, other) := collect oc.trace
        -- glibc's assert prints `<prog>: <file>:<line>: <func>: Assertion `<e>' failed.` and aborts
        let prog := ((o.argv.headD "a.out").splitOn "/").getLastD "a.out"
        let se := match oc.end with
          | .trap r =>
            if r.startsWith "abort: assertion failed: " then
              (r.drop "abort: assertion failed: ".length).toString.foldl
                (fun b c => b.push c.toNat.toUInt8) (se ++ (prog ++ ": ").toUTF8) |>.push 10
            else se
          | _ => se
        match o.stdoutTo with
        | some f => IO.FS.writeBinFile f so
        | none => pure ()
        match o.stderrTo with
        | some f => IO.FS.writeBinFile f se
        | none => pure ()
        let line := match oc.end with
          | .ret (.scalar v) => "status " ++ toString (v.bits &&& 0xff).toNat
          | .ret .none => "status 0"
          | .exit n => "status " ++ toString (n.toNat % 256)
          | e => (e.render.replace "\n" " ")
        out.putStrLn line
        out.putStrLn ("steps " ++ toString steps)
        for e in other.reverse do
          if e.startsWith "F" then out.putStrLn ("freopen " ++ (e.drop 1).toString)
        -- where did it stop?  (the semantics is deterministic: replay `steps` steps)
        match oc.end with
        | .ret _ | .exit _ => pure ()
        | _ =>
          match initState p "main" args with
          | .ok s0 =>
            match Libc.stateAfter p ext steps s0 with
            | some s => out.putStrLn ("at " ++ Libc.describe s)
            | none => pure ()
          | .error _ => pure ()
        return 0

def cmdExterns (o : Opts) : IO UInt32 := do
  match (← loadModules o.modules) with
  | .error e => IO.println ("broken parse: " ++ e); return 2
  | .ok ms =>
    match linkModules ms with
    | .error e => IO.println ("broken " ++ e); return 2
    | .ok linked =>
      let und := linked.undefinedSyms
      let env := Libc.envModule [] ByteArray.empty []
      let p := Prog.ofModule env
      let have_ : List String := Libc.libcNames p ++ env.datas.map (·.name)
      IO.println ("externs " ++ " ".intercalate und)
      IO.println ("missing " ++ " ".intercalate (und.filter fun n => !have_.contains n))
      return 0

def cmdWf (o : Opts) : IO UInt32 := do
  match (← loadModules o.modules) with
  | .error e => IO.println ("bad parse: " ++ e); return 0
  | .ok ms =>
    match linkModules (ms ++ [Libc.envModule [] ByteArray.empty ["a"]]) with
    | .error e => IO.println ("bad " ++ e); return 0
    | .ok linked =>
      match wf linked with
      | .error e => IO.println ("bad " ++ e)
      | .ok () => IO.println s!"ok {linked.funcs.length} {linked.datas.length} {linked.types.length}"
      return 0

def main (args : List String) : IO UInt32 := do
  match args with
  | cmd :: rest =>
    match parseOpts rest {} with
    | .error e => IO.eprintln e; return 2
    | .ok o =>
      match cmd with
      | "run" => cmdRun o
      | "externs" => cmdExterns o
      | "wf" => cmdWf o
      | _ => IO.eprintln "usage: drv_c02 run|externs|wf --module FILE… [options] [-- argv…]"; return 2
  | [] => IO.eprintln "usage: drv_c02 run|externs|wf --module FILE… [options] [-- argv…]"; return 2

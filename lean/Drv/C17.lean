import CprocVerif.Model.Driver
import CprocVerif.Spec.DriverDoc

/-! Line-protocol driver for property C17 (model of `driver.c`: `CprocVerif.Driver.plan`).

Fields are TAB-separated.  A string token is `'` followed by its characters, every character
outside `[A-Za-z0-9._/=+:,@-]` written `%<hex code point>;`.

* `cfg <field> <tok>*`  sets `target` (one token) or one of `startfiles endfiles preprocesscmd
                        compilecmd codegencmd assemblecmd linkcmd`   → `ok`
* `run <tok>*`          the command line (without argv[0]) → one JSON line:
    `{"outcome":"fatal-target"}` | `{"outcome":"usage","why":W}` |
    `{"outcome":"run","verbose":b,"pipelines":[{"input":i,"stages":[{"stage":S,"argv":[w…],
      "src":"file|inherit|prev","dst":"pipe|stdout|path","out":w|null}…]}…],
      "link":[w…]|null,"unlink":[w…]}`
  a word `w` is a token string, or `"#<i>"` for the temporary object of input `i`.
* `doc <bits> <item>*`   the expected plan according to `Spec/DriverDoc.lean` (`docPlan`) for a
                        command line given as ITEMS; `<bits>` = two 0/1 characters
                        (manualEmitQbe, manualPthread);
                        an item is `kind|<0/1 detached>|tok|tok…`; same JSON (`"why":"doc"`)
* `render <item>*`      the argv of the items, as JSON list of token strings
* `dev <item>*`         the known deviations present, as JSON list of names
* anything else → `bad-op`
-/

open CprocVerif.Driver
open CprocVerif.DriverDoc (Item Cmd Opts docPlan DocOutcome)

def hexVal (c : Char) : Option Nat :=
  if '0' ≤ c ∧ c ≤ '9' then some (c.toNat - '0'.toNat)
  else if 'a' ≤ c ∧ c ≤ 'f' then some (c.toNat - 'a'.toNat + 10)
  else none

def decodeAux : Nat → List Char → List Char → Option (List Char)
  | 0, _, _ => none
  | _, [], acc => some acc.reverse
  | fuel + 1, '%' :: cs, acc =>
    let hex := cs.takeWhile (· != ';')
    let rest := (cs.dropWhile (· != ';')).drop 1
    let v := hex.foldl (fun a c => a.bind fun n => (hexVal c).map (n * 16 + ·)) (some 0)
    match v with
    | some n => decodeAux fuel rest (Char.ofNat n :: acc)
    | none => none
  | fuel + 1, c :: cs, acc => decodeAux fuel cs (c :: acc)

def decodeTok (t : String) : Option Str :=
  match t.toList with
  | '\'' :: cs => decodeAux (cs.length + 1) cs []
  | _ => none

def hexDigits (n : Nat) : List Char := (Nat.toDigits 16 n)

def safeChar (c : Char) : Bool :=
  c.isAlphanum || c == '.' || c == '_' || c == '/' || c == '-' || c == '=' || c == '+' || c == ':' || c == ',' || c == '@'

def encodeStr (s : Str) : String :=
  String.ofList ('\'' :: s.flatMap fun c => if safeChar c then [c] else '%' :: hexDigits c.toNat ++ [';'])

def wordJ : Word → String
  | .lit s => "\"" ++ encodeStr s ++ "\""
  | .tmp i => "\"#" ++ toString i ++ "\""

def listJ (xs : List String) : String := "[" ++ ",".intercalate xs ++ "]"

def invJ (i : Inv) : String :=
  "{\"stage\":\"" ++ i.stage.name ++ "\",\"argv\":" ++ listJ (i.argv.map wordJ) ++
  ",\"src\":\"" ++ (match i.src with | .file => "file" | .inherit => "inherit" | .prev => "prev") ++
  "\",\"dst\":\"" ++ (match i.dst with | .pipe => "pipe" | .stdout => "stdout" | .path _ => "path") ++
  "\",\"out\":" ++ (match i.dst with | .path w => wordJ w | _ => "null") ++ "}"

def whyS : UsageWhy → String
  | .plain => "plain" | .stdinNeedsX => "stdin-needs-x" | .unknownLang => "unknown-language"
  | .unknownOpt => "unknown-option" | .objToStdout => "object-to-stdout" | .oMulti => "o-with-multiple-inputs"

def outcomeJ : Outcome → String
  | .fatalTarget => "{\"outcome\":\"fatal-target\"}"
  | .refused (.usage w) => "{\"outcome\":\"usage\",\"why\":\"" ++ whyS w ++ "\"}"
  | .run p =>
    "{\"outcome\":\"run\",\"verbose\":" ++ (if p.verbose then "true" else "false") ++ ",\"pipelines\":" ++
    listJ (p.pipelines.map fun pl =>
      "{\"input\":" ++ toString pl.input ++ ",\"stages\":" ++ listJ (pl.invs.map invJ) ++ "}") ++
    ",\"link\":" ++ (match p.link with | some a => listJ (a.map wordJ) | none => "null") ++
    ",\"unlink\":" ++ listJ (p.unlinks.map wordJ) ++ "}"

def docOutcomeJ : DocOutcome → String
  | .fatalTarget => outcomeJ .fatalTarget
  | .refused => "{\"outcome\":\"usage\",\"why\":\"doc\"}"
  | .run p => outcomeJ (.run p)

def decodeItem (f : String) : Option (Item × Bool) :=
  match f.splitOn "|" with
  | kind :: d :: toks =>
    match toks.mapM decodeTok with
    | none => none
    | some vs =>
      let det := d == "1"
      let v := vs.headD []
      let it : Option Item :=
        match kind with
        | "input" => some (.input v)
        | "c" => some .c | "S" => some .S | "E" => some .E | "emit-qbe" => some .emitQbe
        | "D" => some (.define v) | "U" => some (.undef v) | "I" => some (.incdir v) | "L" => some (.libdir v)
        | "l" => some (.lib v) | "o" => some (.output v) | "x" => some (.lang v)
        | "include" => some (.inc .include_ v) | "idirafter" => some (.inc .idirafter v)
        | "isystem" => some (.inc .isystem v) | "iquote" => some (.inc .iquote v)
        | "s" => some .strip | "v" => some .verbose | "static" => some .static_
        | "nostdlib" => some .nostdlib | "nostdinc" => some .nostdinc | "pthread" => some .pthread
        | "Wp" => some (.wtool .cpp vs) | "Wa" => some (.wtool .as vs) | "Wl" => some (.wtool .ld vs)
        | "g" => some (.ineff (.g v)) | "O" => some (.ineff (.O v)) | "pipe" => some (.ineff .pipe)
        | "pedantic" => some (.ineff .pedantic) | "W" => some (.ineff (.warn v))
        | "std" => some (.std v)
        | "M" => some (.dep .M) | "MM" => some (.dep .MM) | "MD" => some (.dep .MD) | "MMD" => some (.dep .MMD)
        | "MT" => some (.depArg true v) | "MF" => some (.depArg false v)
        | "P" => some (.noLineMarkers v)
        | _ => none
      it.map (·, det)
  | _ => none

def devName : CprocVerif.DriverDoc.Deviation → String
  | .pthreadNotLib => "\"pthread-not-lpthread\""
  | .emitQbeNotStdout => "\"emit-qbe-default-output-not-stdout\""

def emptyCfg : Config :=
  { target := [], startfiles := [], endfiles := [], preprocesscmd := [], compilecmd := [],
    codegencmd := [], assemblecmd := [], linkcmd := [] }

def decodeAll (ts : List String) : Option (List Str) := ts.mapM decodeTok

def stepLine (cfg : Config) (line : String) : Config × String :=
  let line := (line.toList.filter (fun c => c != '\n' && c != '\r'))
  match (String.ofList line).splitOn "\t" with
  | "cfg" :: field :: toks =>
    match decodeAll toks with
    | none => (cfg, "bad-op")
    | some vs =>
      match field with
      | "target" => ({ cfg with target := vs.headD [] }, "ok")
      | "startfiles" => ({ cfg with startfiles := vs }, "ok")
      | "endfiles" => ({ cfg with endfiles := vs }, "ok")
      | "preprocesscmd" => ({ cfg with preprocesscmd := vs }, "ok")
      | "compilecmd" => ({ cfg with compilecmd := vs }, "ok")
      | "codegencmd" => ({ cfg with codegencmd := vs }, "ok")
      | "assemblecmd" => ({ cfg with assemblecmd := vs }, "ok")
      | "linkcmd" => ({ cfg with linkcmd := vs }, "ok")
      | _ => (cfg, "bad-op")
  | "doc" :: bits :: items =>
    match items.mapM decodeItem, bits.toList with
    | some c, [a, b] =>
      let o : Opts := ⟨a == '1', b == '1'⟩
      (cfg, if CprocVerif.DriverDoc.Cmd.WF c then docOutcomeJ (docPlan o cfg c) else "not-wf")
    | _, _ => (cfg, "bad-op")
  | "render" :: items =>
    match items.mapM decodeItem with
    | some c => (cfg, listJ ((CprocVerif.DriverDoc.Cmd.argv c).map fun a => "\"" ++ encodeStr a ++ "\""))
    | none => (cfg, "bad-op")
  | "dev" :: items =>
    match items.mapM decodeItem with
    | some c => (cfg, listJ ((CprocVerif.DriverDoc.deviations c).map devName))
    | none => (cfg, "bad-op")
  | "run" :: toks =>
    match decodeAll toks with
    | none => (cfg, "bad-op")
    | some argv => (cfg, outcomeJ (plan cfg argv))
  | _ => (cfg, "bad-op")

partial def loop (stdin stdout : IO.FS.Stream) (cfg : Config) : IO Unit := do
  let line ← stdin.getLine
  if line.isEmpty then
    return ()
  let (cfg', out) := stepLine cfg line
  stdout.putStrLn out
  loop stdin stdout cfg'

def main (_args : List String) : IO UInt32 := do
  let stdin ← IO.getStdin
  let stdout ← IO.getStdout
  loop stdin stdout emptyCfg
  stdout.flush
  return 0

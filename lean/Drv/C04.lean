import CprocVerif.Model.Eval
import CprocVerif.Spec.CInt

/-! Line-protocol driver for property C04 (model of `eval.c` + literal typing, and the C11 spec).

One output line per input line.  `<u64>` = unsigned decimal, `<int>` = signed decimal.
Integer types are `<bits> <signed 0|1>` with bits ∈ {1 (_Bool), 8, 16, 32, 64}.

Model (`Model/Eval.lean`):
* `bin <op> <bits> <s> <l u64> <r u64>`  → `<u64>` | `unfolded` | `hostub`
       (`op` ∈ mul div mod add sub shl shr band bor bxor lt gt le ge eq ne; the operands have the
        type `<bits> <s>`; the result type is `int` for comparisons, the operand type otherwise)
* `un <neg|bnot|lnot|plus> <bits> <s> <u64>` → `<u64>`   (through the rewrites of `unaryexpr`)
* `cast <fb> <fs> <tb> <ts> <u64>`       → `<u64>`
* `castif <fb> <fs> <fsize> <u64>`       → bits of the double (int → float)
* `castfi <tb> <ts> <bits u64>`          → `<u64>` | `error`      (double → int)
* `castff <fsize> <bits>`                → bits                   (float → float)
* `fbin <op> <fsize> <lbits> <rbits>`    → bits, or 0/1 for comparisons
* `lit <text>`                           → `<value> <typename>` | `floating` | `error`
* `expr <sexpr>` / `ice <allowneg 0|1> <sexpr>` → evaluated tree / `<u64>` | `error`
Spec (`Spec/CInt.lean`):
* `spec bin <op> <bits> <s> <a int> <b int>` → `<int>` | `ub`
* `spec un <op> <bits> <s> <a int>`       → `<int>` | `ub`
* `spec conv <tb> <ts> <v int>`           → `<int>`
* `spec repr <bits> <s> <v int>`          → `<u64>`
* `spec lit <u 0|1> <rank 0|1|2> <decimal 0|1> <v>` → typename | `none`
anything else → `bad-op`
-/

open CprocVerif CprocVerif.CInt CprocVerif.Eval

def fops : FloatOps Float where
  ofBits n := Float.ofBits (UInt64.ofNat n)
  bits f := f.toBits.toNat
  add := (· + ·)
  sub := (· - ·)
  mul := (· * ·)
  div := (· / ·)
  neg := Float.neg
  lt a b := a < b
  le a b := a ≤ b
  eq a b := a == b
  ofInt i :=
    if i < -(2 ^ 63) ∨ 2 ^ 64 ≤ i then Float.ofInt i          -- only the bound 2^64 of `eval` (exact)
    else if i < 0 then (Int64.ofInt i).toFloat else (UInt64.ofNat i.toNat).toFloat
  ofIntF32 i := if i < 0 then (Int64.ofInt i).toFloat32.toFloat else (UInt64.ofNat i.toNat).toFloat32.toFloat
  toInt f := if f < 0 then f.toInt64.toInt else (f.toUInt64.toNat : Int)
  toF32 f := f.toFloat32.toFloat

def parseU64 (s : String) : Option Nat :=
  match s.toNat? with
  | some n => if n < 2 ^ 64 then some n else none
  | none => none

def parseBool (s : String) : Option Bool :=
  if s == "1" then some true else if s == "0" then some false else none

def parseBinOp : String → Option BinOp
  | "mul" => some .mul | "div" => some .div | "mod" => some .mod | "add" => some .add
  | "sub" => some .sub | "shl" => some .shl | "shr" => some .shr | "band" => some .band
  | "bor" => some .bor | "bxor" => some .bxor | "lt" => some .lt | "gt" => some .gt
  | "le" => some .le | "ge" => some .ge | "eq" => some .eq | "ne" => some .ne
  | "lor" => some .lor | "land" => some .land
  | _ => none

def parseUnOp : String → Option UnOp
  | "neg" => some .neg | "bnot" => some .bnot | "lnot" => some .lnot | "plus" => some .plus
  | _ => none

def parseIntTy (b s : String) : Option IntTy := do
  let bits ← b.toNat?
  let sg ← parseBool s
  if bits = 1 ∨ bits = 8 ∨ bits = 16 ∨ bits = 32 ∨ bits = 64 then some ⟨bits, sg⟩ else none

def intTy : Ty := .int 4 true

def showFold : Fold → String
  | .folded u => toString u
  | .unfolded => "unfolded"
  | .hostUB => "hostub"

def showOptInt : Option Int → String
  | some v => toString v
  | none => "ub"

/-! S-expressions for `expr` -/

def tokenize (s : String) : List String :=
  ((s.replace "(" " ( ").replace ")" " ) ").splitOn " " |>.filter (· ≠ "")

def parseTy : String → Option Ty
  | "b1" => some .bool
  | "i8" => some (.int 1 true) | "u8" => some (.int 1 false)
  | "i16" => some (.int 2 true) | "u16" => some (.int 2 false)
  | "i32" => some (.int 4 true) | "u32" => some (.int 4 false)
  | "i64" => some (.int 8 true) | "u64" => some (.int 8 false)
  | "f32" => some (.flt 4) | "f64" => some (.flt 8) | "f128" => some (.flt 16)
  | "ptr" => some .ptr | "void" => some .other
  | _ => none

def showTy : Ty → String
  | .int sz sg => (if sg then "i" else "u") ++ toString (sz * 8)
  | .bool => "b1"
  | .flt sz => "f" ++ toString (sz * 8)
  | .ptr => "ptr"
  | .other => "void"

def showBinOp : BinOp → String
  | .mul => "mul" | .div => "div" | .mod => "mod" | .add => "add" | .sub => "sub" | .shl => "shl"
  | .shr => "shr" | .band => "band" | .bor => "bor" | .bxor => "bxor" | .lt => "lt" | .gt => "gt"
  | .le => "le" | .ge => "ge" | .eq => "eq" | .ne => "ne" | .lor => "lor" | .land => "land"

/-- fuel-bounded recursive-descent parser; `cond` applies the parser-side shortcut of `condexpr`. -/
def parseExpr : Nat → List String → Option (Expr × List String)
  | 0, _ => none
  | fuel + 1, toks =>
    match toks with
    | "(" :: "c" :: t :: u :: ")" :: rest => do some (.const (← parseTy t) (← parseU64 u), rest)
    | "(" :: "e" :: t :: u :: ")" :: rest => do some (.enumc (← parseTy t) (← parseU64 u), rest)
    | "(" :: "o" :: t :: n :: ")" :: rest => do some (.obj (← parseTy t) n, rest)
    | "(" :: "s" :: i :: ")" :: rest => do some (.str .other (← i.toNat?), rest)
    | "(" :: "op" :: t :: i :: ")" :: rest => do some (.opaque (← parseTy t) (← i.toNat?), rest)
    | "(" :: "cond" :: t :: rest => do
      let ty ← parseTy t
      let (c, r1) ← parseExpr fuel rest
      let (a, r2) ← parseExpr fuel r1
      let (b, r3) ← parseExpr fuel r2
      match r3 with
      | ")" :: r4 => some (condexpr fops c a b ty, r4)
      | _ => none
    | "(" :: "cast" :: t :: rest => do
      let ty ← parseTy t
      let (a, r1) ← parseExpr fuel rest
      match r1 with
      | ")" :: r2 => some (.cast ty a, r2)
      | _ => none
    | "(" :: "neg" :: t :: rest => do
      let ty ← parseTy t
      let (a, r1) ← parseExpr fuel rest
      match r1 with
      | ")" :: r2 => some (.unary .neg ty a, r2)
      | _ => none
    | "(" :: "addr" :: t :: rest => do
      let ty ← parseTy t
      let (a, r1) ← parseExpr fuel rest
      match r1 with
      | ")" :: r2 => some (.unary .addr ty a, r2)
      | _ => none
    | "(" :: "deref" :: t :: rest => do
      let ty ← parseTy t
      let (a, r1) ← parseExpr fuel rest
      match r1 with
      | ")" :: r2 => some (.unary .deref ty a, r2)
      | _ => none
    | "(" :: o :: t :: rest => do
      let op ← parseBinOp o
      let ty ← parseTy t
      let (a, r1) ← parseExpr fuel rest
      let (b, r2) ← parseExpr fuel r1
      match r2 with
      | ")" :: r3 => some (.binary op ty a b, r3)
      | _ => none
    | _ => none

def showExpr : Expr → String
  | .const t u => "(c " ++ showTy t ++ " " ++ toString u ++ ")"
  | .enumc t u => "(e " ++ showTy t ++ " " ++ toString u ++ ")"
  | .obj t n => "(o " ++ showTy t ++ " " ++ n ++ ")"
  | .str _ i => "(s " ++ toString i ++ ")"
  | .compound t _ i => "(compound " ++ showTy t ++ " " ++ toString i ++ ")"
  | .unary .addr t b => "(addr " ++ showTy t ++ " " ++ showExpr b ++ ")"
  | .unary .deref t b => "(deref " ++ showTy t ++ " " ++ showExpr b ++ ")"
  | .unary .neg t b => "(neg " ++ showTy t ++ " " ++ showExpr b ++ ")"
  | .cast t b => "(cast " ++ showTy t ++ " " ++ showExpr b ++ ")"
  | .binary op t l r => "(" ++ showBinOp op ++ " " ++ showTy t ++ " " ++ showExpr l ++ " " ++ showExpr r ++ ")"
  | .cond t c a b => "(cond " ++ showTy t ++ " " ++ showExpr c ++ " " ++ showExpr a ++ " " ++ showExpr b ++ ")"
  | .opaque t i => "(op " ++ showTy t ++ " " ++ toString i ++ ")"
  | .error => "error"
  | .bad => "bad"

def allOnes : Nat := 2 ^ 64 - 1

/-- unary operators as `unaryexpr` compiles them. -/
def modelUn (op : UnOp) (t : IntTy) (u : Nat) : String :=
  let ty := tyOf t
  match op with
  | .neg => toString (unaryNeg fops ty ty u)
  | .bnot => showFold (foldBin fops .bxor ty u allOnes ty)      -- `e ^ mkconstexpr(type, -1)`
  | .lnot => showFold (foldBin fops .eq ty u 0 intTy)            -- `e == 0`
  | .plus => toString u

def step (line : String) : String :=
  match line.trimAscii.toString.splitOn " " with
  | ["bin", o, b, s, l, r] =>
    match parseBinOp o, parseIntTy b s, parseU64 l, parseU64 r with
    | some op, some t, some l, some r =>
      showFold (foldBin fops op (tyOf t) l r (tyOf (binResTy op t)))
    | _, _, _, _ => "bad-op"
  | ["un", o, b, s, u] =>
    match parseUnOp o, parseIntTy b s, parseU64 u with
    | some op, some t, some u => modelUn op t u
    | _, _, _ => "bad-op"
  | ["cast", fb, fs, tb, ts, u] =>
    match parseIntTy fb fs, parseIntTy tb ts, parseU64 u with
    | some f, some t, some u =>
      match castConst fops (tyOf f) (tyOf t) u with
      | .const _ v => toString v
      | _ => "error"
    | _, _, _ => "bad-op"
  | ["castif", fb, fs, sz, u] =>
    match parseIntTy fb fs, sz.toNat?, parseU64 u with
    | some f, some sz, some u =>
      match castConst fops (tyOf f) (.flt sz) u with
      | .const _ v => toString v
      | _ => "error"
    | _, _, _ => "bad-op"
  | ["castfi", tb, ts, u] =>
    match parseIntTy tb ts, parseU64 u with
    | some t, some u =>
      match castConst fops (.flt 8) (tyOf t) u with
      | .const _ v => toString v
      | _ => "error"
    | _, _ => "bad-op"
  | ["castff", sz, u] =>
    match sz.toNat?, parseU64 u with
    | some sz, some u =>
      match castConst fops (.flt 8) (.flt sz) u with
      | .const _ v => toString v
      | _ => "error"
    | _, _ => "bad-op"
  | ["fbin", o, sz, l, r] =>
    match parseBinOp o, sz.toNat?, parseU64 l, parseU64 r with
    | some op, some sz, some l, some r =>
      showFold (foldBin fops op (.flt sz) l r (if op.isCmp then intTy else .flt sz))
    | _, _, _, _ => "bad-op"
  | ["lit", text] =>
    match parseNumber text.toList with
    | .int v t => toString v ++ " " ++ t.name
    | .floating => "floating"
    | .error => "error"
  | "expr" :: rest =>
    match parseExpr 4000 (tokenize (" ".intercalate rest)) with
    | some (e, []) => showExpr (eval fops e)
    | _ => "bad-op"
  | "ice" :: a :: rest =>
    match parseBool a, parseExpr 4000 (tokenize (" ".intercalate rest)) with
    | some an, some (e, []) =>
      match intconstexpr fops e an with
      | some u => toString u
      | none => "error"
    | _, _ => "bad-op"
  | ["spec", "bin", o, b, s, x, y] =>
    match parseBinOp o, parseIntTy b s, x.toInt?, y.toInt? with
    | some op, some t, some x, some y => showOptInt (CInt.bin op t x y)
    | _, _, _, _ => "bad-op"
  | ["spec", "un", o, b, s, x] =>
    match parseUnOp o, parseIntTy b s, x.toInt? with
    | some op, some t, some x => showOptInt (CInt.un op t x)
    | _, _, _ => "bad-op"
  | ["spec", "conv", b, s, x] =>
    match parseIntTy b s, x.toInt? with
    | some t, some x => toString (CInt.wrap t x)
    | _, _ => "bad-op"
  | ["spec", "repr", b, s, x] =>
    match parseIntTy b s, x.toInt? with
    | some t, some x => toString (CInt.repr64 t x)
    | _, _ => "bad-op"
  | ["spec", "lit", u, rk, d, v] =>
    match parseBool u, rk.toNat?, parseBool d, v.toNat? with
    | some u, some rk, some d, some v =>
      match CInt.litType ⟨u, rk⟩ d v with
      | some t => t.name
      | none => "none"
    | _, _, _, _ => "bad-op"
  | _ => "bad-op"

partial def loop (stdin stdout : IO.FS.Stream) : IO Unit := do
  let line ← stdin.getLine
  if line.isEmpty then
    return ()
  stdout.putStrLn (step line)
  loop stdin stdout

def main (_args : List String) : IO UInt32 := do
  let stdin ← IO.getStdin
  let stdout ← IO.getStdout
  loop stdin stdout
  stdout.flush
  return 0

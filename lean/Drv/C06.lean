import CprocVerif.Model.Layout
import CprocVerif.Spec.Abi

/-! Line-protocol driver for property C06 (object layout, enum underlying type).

One output line per input line.  Tokens are separated by single spaces.

```
type   := i<N>                 integer-like scalar (PROPINT), size = align = N
        | x<S>:<A>             other scalar (floating, pointer): size S, align A
        | A <len|?> type       array (`?` = incomplete `T[]`)
        | S { field* }         struct      | SP { field* }   packed struct
        | U { field* }         union       | UP { field* }   ("packed" union: model only)
field  := m <name|-> <align> type     non-bit-field member (`-` = anonymous; align 0 = no _Alignas)
        | b <name|-> <width> type     bit-field (`-` = unnamed)
path   := name(.name|[index])*
```
* `layout <type> (| <path>)*`          → `ok <size> <align> <r>*`, `r` = `<offset>` or, for a
                                          bit-field, `<offset>:<before>:<after>:<width>`, or
                                          `!<kind>` if the path does not resolve; `error <kind>`
* `spec <target> <type> (| <path>)*`   → the same, answered by `Spec/Abi.lean` (`-` for no answer)
* `enum <fixed> <item>*`               → `ok <size><s|u>` / `error <kind>`;  `fixed` = `-` or
                                          `<size><s|u>`; item = `-` (no `=`) or `<u64>:<size><s|u>`
* `specenum <fixed> <item>*`           → `ok <size><s|u>` / `none`
-/

open CprocVerif CprocVerif.Layout

def parseIntTy (s : String) : Option IntTy :=
  if s.length < 2 then none else
  let sg := s.back
  match (s.dropEnd 1).toString.toNat? with
  | some n => if sg == 's' then some ⟨n, true⟩ else if sg == 'u' then some ⟨n, false⟩ else none
  | none => none

mutual
  partial def parseType : List String → Option (CType × List String)
    | [] => none
    | tok :: rest =>
      if tok == "A" then
        match rest with
        | l :: rest' =>
          let len : Option (Option Nat) := if l == "?" then some none else l.toNat?.map some
          match len, parseType rest' with
          | some len, some (e, rest'') => some (.array e len, rest'')
          | _, _ => none
        | [] => none
      else if tok == "S" || tok == "SP" || tok == "U" || tok == "UP" then
        match rest with
        | "{" :: rest' =>
          match parseFields rest' with
          | some (fs, rest'') => some (.su (tok == "U" || tok == "UP") (tok == "SP" || tok == "UP") fs, rest'')
          | none => none
        | _ => none
      else if tok.startsWith "i" then
        (tok.drop 1).toString.toNat?.map fun n => (.scalar n n true, rest)
      else if tok.startsWith "x" then
        match (tok.drop 1).toString.splitOn ":" with
        | [s, a] =>
          match s.toNat?, a.toNat? with
          | some s, some a => some (.scalar s a false, rest)
          | _, _ => none
        | _ => none
      else none
  partial def parseFields : List String → Option (Fields × List String)
    | "}" :: rest => some (.nil, rest)
    | k :: name :: n :: rest =>
      if k == "m" || k == "b" then
        -- bit-field: `<width>` or `<width>@<align>` (an `_Alignas` on a bit-field is an error)
        let (n, al) : String × String := match n.splitOn "@" with
          | [a, b] => (a, b)
          | _ => (n, "0")
        match n.toNat?, al.toNat?, parseType rest with
        | some n, some al, some (ty, rest') =>
          match parseFields rest' with
          | some (fs, rest'') =>
            let nm := if name == "-" then none else some name
            some (if k == "m" then .cons nm ty n none fs else .cons nm ty al (some n) fs, rest'')
          | none => none
        | _, _, _ => none
      else none
    | _ => none
end

/-- `a.b[2].c` → ("a", [field b, index 2, field c]) -/
def parsePath (s : String) : Option (String × List Desig) :=
  let s := s.replace "[" ".[" |>.replace "]" ""
  match s.splitOn "." with
  | [] => none
  | first :: rest =>
    let ds := rest.map fun (p : String) =>
      if p.startsWith "[" then (p.drop 1).toString.toNat?.map Desig.index else some (Desig.field p)
    if ds.all Option.isSome then some (first, ds.filterMap id) else none

def splitBar (toks : List String) : List (List String) :=
  let rec go (cur : List String) (acc : List (List String)) : List String → List (List String)
    | [] => (cur.reverse :: acc).reverse
    | t :: ts => if t == "|" then go [] (cur.reverse :: acc) ts else go (t :: cur) acc ts
  go [] [] toks

def showMember (off : Nat) (m : Member) : String :=
  match m.width with
  | none => toString off
  | some w => s!"{off}:{m.before}:{m.after}:{w}"

def doLayout (toks : List String) : String :=
  match splitBar toks with
  | [] => "bad-op"
  | tyToks :: paths =>
    match parseType tyToks with
    | some (ty, []) =>
      match tinfo ty with
      | .error e => "error " ++ e.toString
      | .ok t =>
        let rs := paths.map fun p =>
          match parsePath (String.join p) with
          | none => "!bad-path"
          | some (n, ds) =>
            match offsetof ty n ds with
            | .error e => "!" ++ e.toString
            | .ok (off, m) => showMember off m
        " ".intercalate (["ok", toString t.size, toString t.align] ++ rs)
    | _ => "bad-op"

def doSpec (T : Abi.Target) (toks : List String) : String :=
  match splitBar toks with
  | [] => "bad-op"
  | tyToks :: paths =>
    match parseType tyToks with
    | some (ty, []) =>
      let t := Abi.tinfo T ty
      let rs := paths.map fun p =>
        match parsePath (String.join p) with
        | none => "!bad-path"
        | some (n, ds) =>
          match Abi.offsetof T ty n ds with
          | none => "-"
          | some (off, m) => showMember off m
      " ".intercalate (["ok", toString t.size, toString t.align] ++ rs)
    | _ => "bad-op"

def parseItems (toks : List String) : Option (List EnumItem) :=
  let r := toks.map fun (t : String) =>
    if t == "-" then some EnumItem.implicit else
    match t.splitOn ":" with
    | [u, ty] =>
      match u.toNat?, parseIntTy ty with
      | some u, some ty => some (EnumItem.explicit u ty)
      | _, _ => none
    | _ => none
  if r.all Option.isSome then some (r.filterMap id) else none

def showIntTy (t : IntTy) : String := toString t.size ++ (if t.signed then "s" else "u")

def doEnum (spec : Bool) (toks : List String) : String :=
  match toks with
  | [] => "bad-op"
  | f :: items =>
    let fixed : Option (Option IntTy) := if f == "-" then some none else (parseIntTy f).map some
    match fixed, parseItems items with
    | some fixed, some items =>
      if spec then
        match Abi.enumUnderlying fixed items with
        | some t => "ok " ++ showIntTy t
        | none => "none"
      else
        match enumUnderlying fixed items with
        | .ok t => "ok " ++ showIntTy t
        | .error e => "error " ++ e.toString
    | _, _ => "bad-op"

def step (line : String) : String :=
  match (line.trimAscii.toString.splitOn " ").filter (· ≠ "") with
  | "layout" :: rest => doLayout rest
  | "spec" :: t :: rest =>
    if t == "x86_64-sysv" then doSpec Abi.x86_64 rest
    else if t == "aarch64" then doSpec Abi.aarch64 rest
    else if t == "riscv64" then doSpec Abi.riscv64 rest
    else "bad-op"
  | "enum" :: rest => doEnum false rest
  | "specenum" :: rest => doEnum true rest
  | _ => "bad-op"

partial def loop (stdin stdout : IO.FS.Stream) : IO Unit := do
  let line ← stdin.getLine
  if line.isEmpty then
    return ()
  stdout.putStrLn (step line)
  loop stdin stdout

def main (_args : List String) : IO UInt32 := do
  let stdin ← IO.getStdin
  let stdout ← IO.getStdout
  loop stdin stdout
  stdout.flush
  return 0

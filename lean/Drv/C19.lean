import CprocVerif.Model.Util

/-! Line-protocol driver for property C19 (growable buffers of util.c / scan.c).

State = one `struct array` and one `struct buffer`, both initially `{0}`.  One output line per input line:
* `new`        → `ok`            (both back to `{0}`)
* `add <n>`    → `<off> <len> <cap>`   `arrayadd(&a, n)`: offset of the fresh bytes, new len, new cap
* `buf`        → `<off> <len> <cap>`   `bufadd(&b, c)`
* `bufreset`   → `ok`            (`b.len = 0`, what `bufget` does after copying)
* anything else → `bad-op`
-/
open CprocVerif.Util

def step (s : Arr × Arr) (line : String) : (Arr × Arr) × String :=
  match line.trimAscii.toString.splitOn " " with
  | ["new"] => ((⟨0, 0⟩, ⟨0, 0⟩), "ok")
  | ["add", n] =>
    match n.toNat? with
    | some k =>
      let r := arrayadd s.1 k
      ((r.1, s.2), s!"{r.2} {r.1.len} {r.1.cap}")
    | none => (s, "bad-op")
  | ["buf"] =>
    let r := bufadd s.2
    ((s.1, r.1), s!"{r.2} {r.1.len} {r.1.cap}")
  | ["bufreset"] => ((s.1, { s.2 with len := 0 }), "ok")
  | _ => (s, "bad-op")

partial def loop (stdin stdout : IO.FS.Stream) (s : Arr × Arr) : IO Unit := do
  let line ← stdin.getLine
  if line.isEmpty then
    return ()
  let (s', out) := step s line
  stdout.putStrLn out
  loop stdin stdout s'

def main (_args : List String) : IO UInt32 := do
  let stdin ← IO.getStdin
  let stdout ← IO.getStdout
  loop stdin stdout (⟨0, 0⟩, ⟨0, 0⟩)
  stdout.flush
  return 0

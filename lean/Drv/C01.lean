/-! Line-protocol driver for property C01 (stub until the model exists). -/
def main (_args : List String) : IO UInt32 := do
  IO.eprintln "drv_c01: no model yet"
  return 2

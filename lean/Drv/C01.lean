import CprocVerif.Model.CSem
import CprocVerif.Model.Lower
import CprocVerif.Model.CSem2
import CprocVerif.Model.Lower2
import CprocVerif.Model.CSem3
import CprocVerif.Spec.QbeWf
/-!
Line-protocol driver for property C01 (fragment 𝔽₁: pure scalar integer expressions).

    drv_c01 [--cs 0|1] [--start N] emit     one function description per stdin line; prints the IL
                                            text of `Lower.emitFunc` for each, every function followed
                                            by a line `--`.  `mkblock`'s counter starts at N (default 0)
                                            and runs on from one line to the next, as in one
                                            translation unit.
    drv_c01 [--cs 0|1] [--fuel N] eval      lines `FUNC | a1 a2 …` (decimal C values of the
                                            arguments); prints `c=<evalC> il=<outcome>` where
                                            <evalC> is the value or `ub`, <outcome> is what
                                            `Qbe.runFunc` gives for the emitted function (`ret N`, `trap …`);
                                            a field `wf=0` is added when the emitted module fails
                                            the IL validator `Qbe.wf` (Spec/QbeWf).
                                            A line `wt=0 …` is printed when the tree is ill-typed
                                            or the arguments are out of range.

`--cs` is the signedness of plain `char` (default 1 = x86_64).  A malformed line gives `bad <reason>`.

Function descriptions are S-expressions mirroring cproc's typed tree after parsing:

    FUNC ::= (fn NAME RET (TY …) EXPR)        RET name(TY p0, TY p1, …) { return EXPR; }
    EXPR ::= (c TY U)                         EXPRCONST, U = u.constant.u as an unsigned decimal
           | (p TY I)                         EXPRIDENT, I-th parameter (0-based)
           | (cast TY EXPR)                   EXPRCAST
           | (neg TY EXPR)                    EXPRUNARY TSUB
           | (OP TY EXPR EXPR)                EXPRBINARY; TY is the type of the node
           | (cond TY EXPR EXPR EXPR)         EXPRCOND
    OP   ::= mul div mod add sub shl shr and or xor lt gt le ge eq ne lor land
    TY   ::= b c sc uc s us i u l ul ll ull   (_Bool, char, signed char, unsigned char, short, …)

Fragment 𝔽₂ (function bodies with statements, `Model/CSem2.lean`, `Model/Lower2.lean`): a line may also be

    FUNC ::= (fn2 NAME RET (TY …) (LTY …) STMT)  RET name(params) STMT; the second list: types of the
                                                  block-scope objects in the order of their declarations;
                                                  LTY ::= TY | (TY N) - an array of N elements
    STMT ::= (skip)                               `;` / `{}`
           | (decl K TY) | (decl K TY EXPR)       declaration of variable K without / with initialiser
                                                  (EXPR already converted to TY, as `parseinit` does)
           | (set K TY EXPR)                      `x = EXPR;` (EXPR converted to TY); `x op= e` comes as
                                                  (set K TY (cast TY (op … (p TY K) e))) — see CSem2.lean
           | (inc K TY) | (dec K TY)              `x++;` `++x;` / `x--;` `--x;`
           | (expr EXPR)                          expression statement without side effect
           | (ret EXPR)                           `return EXPR;` (EXPR converted to RET)
           | (block STMT …)                       compound statement
           | (if EXPR STMT) | (ifelse EXPR STMT STMT)
           | (while EXPR STMT) | (do STMT EXPR)
           | (for STMT COND STMT STMT)            init, condition, step, body; COND ::= EXPR | (none)
           | (break) | (continue)
           | (switch EXPR STMT)                   EXPR already promoted (`exprpromote`); STMT is the body,
                                                  normally a (block …) whose elements include the labels
           | (case U) | (default)                 labels; U = `intconstexpr`'s value as unsigned decimal
           | (call DST RT NAME EXPR …)            `[x =] NAME(args);`  DST ::= (none) | (K TY); RT the return
                                                  type of NAME; the EXPRs already converted to the parameter types
           | (adecl K TY N)                       `TY a[N];` - variable K is an array (stage E)
           | (aload D DT A TY N EXPR)             `x = a[EXPR];` x = variable D of type DT, a = variable A
           | (astore A TY N IDX EXPR)             `a[IDX] = EXPR;` (EXPR converted to TY)
           | (ainit A TY N J EXPR)                element J of the initialiser list of `TY a[N] = {…};`
    In (decl K TY EXPR), (set …), (expr …), (ret …) the EXPR may contain (idx TY A N EXPR) - `a[EXPR]`, a the
    array variable A of N elements of type TY - and (calle RT NAME EXPR …) - a call; their operands are pure.
           | (pload D DT K TY W EXPR)             `x = p[EXPR];` p = parameter K, declared `const TY p[W]`
           | (callp DST RT NAME ((A TY N) …) EXPR …)  a call whose first arguments are the local arrays A
    A parameter type may be (ptr TY W): a read-only array parameter `const TY p[W]`; these come first.
A PROGRAM (stage D, `Model/CSem3.lean`) is a line `(prog FUNC2 …)`: `emit` prints its functions in order;
`eval` on `(prog …) | a1 a2 …` calls the LAST function with the arguments: `c=` is `CSem3.runP`, `il=` the
result of `Qbe.runFunc` on the module of all emitted functions; `wt=0` unless `CSem3.wtP`.
    In EXPR, (p TY K) names VARIABLE K: parameters 0 … n-1, then the locals in declaration order.
`eval` on such a line runs `CSem2.runC` with the fuel given by `--cfuel N` (default 100000; `c=ub` also
when that fuel is exhausted) and the IL of `Lower2.emitFunc`; `wt=0` is also printed when a statement
follows `return`/`break`/`continue` in the same block (unreachable code: outside the model, see
Model/Lower2.lean).
-/

open CprocVerif CprocVerif.CSem CprocVerif.Lower CprocVerif.CInt

inductive SExp where
  | atom (s : String)
  | list (l : List SExp)
  deriving Inhabited

def tokenize (s : String) : List String :=
  let r := s.toList.foldl (fun (acc : List String × String) ch =>
    if ch == '(' || ch == ')' then
      ((if acc.2.isEmpty then acc.1 else acc.2 :: acc.1) |> (String.singleton ch :: ·), "")
    else if ch == ' ' || ch == '\t' || ch == '\n' || ch == '\r' then
      ((if acc.2.isEmpty then acc.1 else acc.2 :: acc.1), "")
    else (acc.1, acc.2.push ch)) ([], "")
  ((if r.2.isEmpty then r.1 else r.2 :: r.1)).reverse

/-- Parse a token list with an explicit stack of open lists. -/
def parseSExp (toks : List String) : Except String SExp :=
  let rec go : List String → List (List SExp) → Except String SExp
    | [], [[e]] => .ok e
    | [], _ => .error "unbalanced"
    | "(" :: r, st => go r ([] :: st)
    | ")" :: r, top :: nxt :: st => go r ((SExp.list top.reverse :: nxt) :: st)
    | ")" :: _, _ => .error "unexpected )"
    | a :: r, top :: st => go r ((SExp.atom a :: top) :: st)
    | _ :: _, [] => .error "internal"
  go toks [[]]

def parseTy : SExp → Except String CSem.Ty
  | .atom "b" => .ok .bool | .atom "c" => .ok .char | .atom "sc" => .ok .schar
  | .atom "uc" => .ok .uchar | .atom "s" => .ok .short | .atom "us" => .ok .ushort
  | .atom "i" => .ok .int | .atom "u" => .ok .uint | .atom "l" => .ok .long
  | .atom "ul" => .ok .ulong | .atom "ll" => .ok .llong | .atom "ull" => .ok .ullong
  | _ => .error "type"

def parseOp : String → Option BinOp
  | "mul" => some .mul | "div" => some .div | "mod" => some .mod | "add" => some .add
  | "sub" => some .sub | "shl" => some .shl | "shr" => some .shr | "and" => some .band
  | "or" => some .bor | "xor" => some .bxor | "lt" => some .lt | "gt" => some .gt
  | "le" => some .le | "ge" => some .ge | "eq" => some .eq | "ne" => some .ne
  | "lor" => some .lor | "land" => some .land
  | _ => none

def parseNat (s : SExp) : Except String Nat :=
  match s with
  | .atom a => match a.toNat? with
    | some n => .ok n
    | none => .error ("number: " ++ a)
  | _ => .error "number"

/-- `fuel` bounds the nesting depth (the token count of the line is always enough). -/
def parseExprF : Nat → SExp → Except String Expr
  | 0, _ => .error "expression too deep"
  | n + 1, e =>
    match e with
    | .list [.atom "c", t, u] => do pure (.const (← parseTy t) (← parseNat u))
    | .list [.atom "p", t, i] => do pure (.param (← parseTy t) (← parseNat i))
    | .list [.atom "cast", t, e] => do pure (.cast (← parseTy t) (← parseExprF n e))
    | .list [.atom "neg", t, e] => do pure (.neg (← parseTy t) (← parseExprF n e))
    | .list [.atom "cond", t, c, a, b] => do
      pure (.cond (← parseTy t) (← parseExprF n c) (← parseExprF n a) (← parseExprF n b))
    | .list [.atom op, t, l, r] =>
      match parseOp op with
      | some o => do pure (.bin o (← parseTy t) (← parseExprF n l) (← parseExprF n r))
      | none => .error ("operator: " ++ op)
    | _ => .error "expression"

/-- an expression of a statement of 𝔽₂ that may read array elements `(idx TY A N EXPR)` and call functions
    `(calle RT NAME EXPR …)` (index and arguments: pure expressions); a subtree without them is kept as a
    pure expression -/
def parseExpr3F : Nat → SExp → Except String CSem2.Expr3
  | 0, _ => .error "expression too deep"
  | n + 1, e =>
    match parseExprF (n + 1) e with
    | .ok x => pure (.pure x)
    | .error _ =>
      match e with
      | .list [.atom "idx", t, a, cnt, x] => do
        pure (.idx (← parseTy t) (← parseNat a) (← parseNat cnt) 0 (← parseExprF n x))
      | .list (.atom "calle" :: rt :: .atom name :: args) => do
        pure (.call (← parseTy rt) name (← args.mapM (parseExprF n)))
      | .list [.atom "cast", t, e] => do pure (.cast (← parseTy t) (← parseExpr3F n e))
      | .list [.atom "neg", t, e] => do pure (.neg (← parseTy t) (← parseExpr3F n e))
      | .list [.atom "cond", t, c, a, b] => do
        pure (.cond (← parseTy t) (← parseExpr3F n c) (← parseExpr3F n a) (← parseExpr3F n b))
      | .list [.atom "comma", t, a, b] => do
        pure (.comma (← parseTy t) (← parseExpr3F n a) (← parseExpr3F n b))
      | .list [.atom op, t, l, r] =>
        match parseOp op with
        | some o => do pure (.bin o (← parseTy t) (← parseExpr3F n l) (← parseExpr3F n r))
        | none => .error ("operator: " ++ op)
      | _ => .error "expression"

def parseFunc (fuel : Nat) : SExp → Except String CSem.Func
  | .list [.atom "fn", .atom name, ret, .list ps, body] => do
    pure ⟨name, ← parseTy ret, ← ps.mapM parseTy, ← parseExprF fuel body⟩
  | _ => .error "function"

def parseFuncLine (s : String) : Except String CSem.Func := do
  let toks := tokenize s
  parseFunc (toks.length + 1) (← parseSExp toks)

open CprocVerif.CSem2 in
def parseStmtF : Nat → SExp → Except String Stmt
  | 0, _ => .error "statement too deep"
  | n + 1, e =>
    match e with
    | .list [.atom "skip"] => pure .skip
    | .list [.atom "decl", k, t] => do pure (.decl (← parseNat k) (← parseTy t) none)
    | .list [.atom "decl", k, t, x] => do
      pure (.decl (← parseNat k) (← parseTy t) (some (← parseExpr3F n x)))
    | .list [.atom "set", k, t, x] => do pure (.assign (← parseNat k) (← parseTy t) (← parseExpr3F n x))
    | .list [.atom "inc", k, t] => do pure (.incdec (← parseNat k) (← parseTy t) true)
    | .list [.atom "dec", k, t] => do pure (.incdec (← parseNat k) (← parseTy t) false)
    | .list [.atom "expr", x] => do pure (.expr (← parseExpr3F n x))
    | .list [.atom "ret", x] => do pure (.ret (← parseExpr3F n x))
    | .list (.atom "block" :: ss) =>
      let rec blk : List SExp → Except String Stmt
        | [] => pure .skip
        | [s] => parseStmtF n s
        | s :: r => do pure (.seq (← parseStmtF n s) (← blk r))
      blk ss
    | .list [.atom "if", c, a] => do pure (.ite (← parseExpr3F n c) (← parseStmtF n a))
    | .list [.atom "ifelse", c, a, b] => do
      pure (.itee (← parseExpr3F n c) (← parseStmtF n a) (← parseStmtF n b))
    | .list [.atom "while", c, b] => do pure (.while_ (← parseExpr3F n c) (← parseStmtF n b))
    | .list [.atom "do", b, c] => do pure (.dowhile (← parseStmtF n b) (← parseExpr3F n c))
    | .list [.atom "for", i, c, st, b] => do
      let c' ← match c with
        | .list [.atom "none"] => pure none
        | c => do pure (some (← parseExpr3F n c))
      pure (.seq (← parseStmtF n i) (.for_ c' (← parseStmtF n st) (← parseStmtF n b)))
    | .list [.atom "switch", c, b] => do pure (.switch_ (← parseExpr3F n c) (← parseStmtF n b))
    | .list [.atom "case", u] => do pure (.case_ (← parseNat u))
    | .list [.atom "default"] => pure .default_
    | .list (.atom "call" :: dst :: rt :: .atom name :: args) => do
      let d ← match dst with
        | .list [.atom "none"] => pure none
        | .list [k, t] => do pure (some (← parseNat k, ← parseTy t))
        | _ => .error "call destination"
      pure (.call d (← parseTy rt) name (← args.mapM (parseExprF n)))
    | .list [.atom "break"] => pure .break_
    | .list [.atom "continue"] => pure .continue_
    | .list [.atom "adecl", k, t, cnt] => do pure (.adecl (← parseNat k) (← parseTy t) (← parseNat cnt) 0)
    | .list [.atom "aload", d, dt, a, t, cnt, x] => do
      pure (.aload (← parseNat d) (← parseTy dt) (← parseNat a) (← parseTy t) (← parseNat cnt) 0
        (← parseExprF n x))
    | .list [.atom "pload", d, dt, k, t, w, x] => do
      pure (.pload (← parseNat d) (← parseTy dt) (← parseNat k) (← parseTy t) (← parseNat w) 0
        (← parseExprF n x))
    | .list (.atom "callp" :: dst :: rt :: .atom name :: .list pas :: args) => do
      let d ← match dst with
        | .list [.atom "none"] => pure none
        | .list [k, t] => do pure (some (← parseNat k, ← parseTy t))
        | _ => .error "call destination"
      let pa ← pas.mapM fun
        | .list [a, t, cnt] => do pure (← parseNat a, ← parseTy t, ← parseNat cnt, 0)
        | _ => .error "array argument"
      pure (.callp d (← parseTy rt) name pa (← args.mapM (parseExprF n)))
    | .list [.atom "astore", a, t, cnt, x, v] => do
      pure (.astore (← parseNat a) (← parseTy t) (← parseNat cnt) 0 (← parseExprF n x) (← parseExpr3F n v))
    | .list [.atom "ainit", a, t, cnt, j, v] => do
      pure (.ainit (← parseNat a) (← parseTy t) (← parseNat cnt) 0 (← parseNat j) (← parseExpr3F n v))
    | _ => .error "statement"

/-- fill in the cell numbers of the array elements (`CSem2.xbase`), which the layout determines -/
def setXb3 (cnts : List Nat) : CSem2.Expr3 → CSem2.Expr3
  | .idx t a n _ x => .idx t a n (CSem2.xbase cnts a) x
  | .cast t e => .cast t (setXb3 cnts e)
  | .neg t e => .neg t (setXb3 cnts e)
  | .bin o t l r => .bin o t (setXb3 cnts l) (setXb3 cnts r)
  | .cond t c a b => .cond t (setXb3 cnts c) (setXb3 cnts a) (setXb3 cnts b)
  | .comma t a b => .comma t (setXb3 cnts a) (setXb3 cnts b)
  | e => e

def setXb (cnts : List Nat) (wb : Nat → Nat) : CSem2.Stmt → CSem2.Stmt
  | .decl i t (some e) => .decl i t (some (setXb3 cnts e))
  | .assign i t e => .assign i t (setXb3 cnts e)
  | .expr e => .expr (setXb3 cnts e)
  | .ret e => .ret (setXb3 cnts e)
  | .seq a b => .seq (setXb cnts wb a) (setXb cnts wb b)
  | .ite c a => .ite (setXb3 cnts c) (setXb cnts wb a)
  | .itee c a b => .itee (setXb3 cnts c) (setXb cnts wb a) (setXb cnts wb b)
  | .while_ c b => .while_ (setXb3 cnts c) (setXb cnts wb b)
  | .dowhile b c => .dowhile (setXb cnts wb b) (setXb3 cnts c)
  | .for_ c st b => .for_ (c.map (setXb3 cnts)) (setXb cnts wb st) (setXb cnts wb b)
  | .switch_ e b => .switch_ (setXb3 cnts e) (setXb cnts wb b)
  | .adecl i t n _ => .adecl i t n (CSem2.xbase cnts i)
  | .aload d dt a t n _ x => .aload d dt a t n (CSem2.xbase cnts a) x
  | .astore a t n _ x v => .astore a t n (CSem2.xbase cnts a) x (setXb3 cnts v)
  | .ainit a t n _ j v => .ainit a t n (CSem2.xbase cnts a) j (setXb3 cnts v)
  | .pload d dt k t w _ x => .pload d dt k t w (wb k) x
  | .callp d rt fn pa args => .callp d rt fn (pa.map fun a => (a.1, a.2.1, a.2.2.1, CSem2.xbase cnts a.1)) args
  | st => st

def parseFunc2 (fuel : Nat) : SExp → Except String CSem2.Func
  | .list [.atom "fn2", .atom name, ret, .list ps, .list ls, body] => do
    let lt ← ls.mapM fun
      | .list [t, _] => parseTy t
      | t => parseTy t
    let lc ← ls.mapM fun
      | .list [_, c] => parseNat c
      | _ => pure 1
    let pt ← ps.mapM fun
      | .list [.atom "ptr", _, _] => pure CSem.Ty.ulong
      | t => parseTy t
    let pw ← ps.filterMapM fun
      | .list [.atom "ptr", t, w] => do pure (some (← parseTy t, ← parseNat w))
      | _ => pure none
    let f : CSem2.Func := ⟨name, ← parseTy ret, pt, lt, ← parseStmtF fuel body, lc, pw⟩
    pure { f with body := setXb f.cnts f.wbase f.body }
  | _ => .error "function"

inductive Line where
  | f1 (f : CSem.Func)
  | f2 (f : CSem2.Func)
  | prog (fs : List CSem2.Func)

/-- A line describes a function of 𝔽₁ (`fn`), of 𝔽₂ (`fn2`), or a program (`prog`). -/
def parseAnyLine (s : String) : Except String Line := do
  let toks := tokenize s
  let sx ← parseSExp toks
  match sx with
  | .list (.atom "fn2" :: _) => do pure (.f2 (← parseFunc2 (toks.length + 1) sx))
  | .list (.atom "prog" :: fs) => do pure (.prog (← fs.mapM (parseFunc2 (toks.length + 1))))
  | _ => do pure (.f1 (← parseFunc (toks.length + 1) sx))

def parseIntLit (s : String) : Option Int :=
  if s.startsWith "-" then (s.drop 1).toString.toNat?.map fun n => -(n : Int)
  else s.toNat?.map fun n => (n : Int)

structure Opts where
  cs : Bool := true
  start : Nat := 0
  fuel : Nat := 1000000
  cfuel : Nat := 100000

def takeOpts : List String → Opts → Opts × List String
  | "--cs" :: v :: r, o => takeOpts r { o with cs := v != "0" }
  | "--start" :: v :: r, o => takeOpts r { o with start := v.toNat?.getD 0 }
  | "--fuel" :: v :: r, o => takeOpts r { o with fuel := v.toNat?.getD o.fuel }
  | "--cfuel" :: v :: r, o => takeOpts r { o with cfuel := v.toNat?.getD o.cfuel }
  | r, o => (o, r)

def cmdEmit (o : Opts) : IO UInt32 := do
  let stdin ← IO.getStdin
  let out ← IO.getStdout
  let mut id := o.start
  repeat
    let line ← stdin.getLine
    if line.isEmpty then break
    let l := line.trimAscii.toString
    if l.isEmpty then continue
    match parseAnyLine l with
    | .error e => out.putStrLn ("bad " ++ e)
    | .ok (.f1 f) =>
      out.putStr (render (emitFunc o.cs id f))
      id := nextBlockId o.cs id f
    | .ok (.f2 f) =>
      out.putStr (Lower2.render2 (Lower2.emitFunc o.cs id f))
      id := Lower2.nextBlockId o.cs id f
    | .ok (.prog fs) =>
      for f in fs do
        out.putStr (Lower2.render2 (Lower2.emitFunc o.cs id f))
        id := Lower2.nextBlockId o.cs id f
    out.putStrLn "--"
  out.flush
  return 0

def cmdEval (o : Opts) : IO UInt32 := do
  let stdin ← IO.getStdin
  let out ← IO.getStdout
  repeat
    let line ← stdin.getLine
    if line.isEmpty then break
    let l := line.trimAscii.toString
    if l.isEmpty then continue
    match l.splitOn "|" with
    | [fs, as] =>
      match parseAnyLine fs with
      | .error e => out.putStrLn ("bad " ++ e)
      | .ok (.prog fs) =>
        let ws := (as.trimAscii.toString.splitOn " ").filter (· ≠ "")
        match ws.mapM parseIntLit, fs.getLast? with
        | some vs, some f =>
          let okTy := CSem3.wtP fs && envOKb o.cs f.params vs
          let c := match CSem3.runP o.cs o.cfuel fs f.name vs with
            | some v => toString v
            | none => "ub"
          let qfs := (fs.foldl (fun (acc : List Qbe.Func × Nat) g =>
            (acc.1 ++ [Lower2.emitFunc o.cs acc.2 g], Lower2.nextBlockId o.cs acc.2 g)) ([], o.start)).1
          let m : Qbe.Module := ⟨(qfs.map Qbe.Def.func).toArray⟩
          let p := Qbe.Prog.ofModule m
          let r := Qbe.runFunc p Qbe.noExt f.name (argsOf f.params vs) o.fuel
          let wfOk := match Qbe.wf m with
            | .ok () => true
            | .error _ => false
          out.putStrLn ((if okTy then "" else "wt=0 ") ++ (if wfOk then "" else "wf=0 ") ++
            "c=" ++ c ++ " il=" ++ r.end.render)
        | _, _ => out.putStrLn "bad argument"
      | .ok (.f2 f) =>
        let ws := (as.trimAscii.toString.splitOn " ").filter (· ≠ "")
        match ws.mapM parseIntLit with
        | none => out.putStrLn "bad argument"
        | some vs =>
          let okTy := f.wt && envOKb o.cs f.params vs
          let c := match CSem2.runC o.cs o.cfuel f vs with
            | some v => toString v
            | none => "ub"
          let qf := Lower2.emitFunc o.cs o.start f
          let p := Qbe.Prog.ofModule (moduleOf qf)
          let r := Qbe.runFunc p Qbe.noExt f.name (argsOf f.params vs) o.fuel
          let wfOk := match Qbe.wf (moduleOf qf) with
            | .ok () => true
            | .error _ => false
          out.putStrLn ((if okTy then "" else "wt=0 ") ++ (if wfOk then "" else "wf=0 ") ++
            "c=" ++ c ++ " il=" ++ r.end.render)
      | .ok (.f1 f) =>
        let ws := (as.trimAscii.toString.splitOn " ").filter (· ≠ "")
        match ws.mapM parseIntLit with
        | none => out.putStrLn "bad argument"
        | some vs =>
          let okTy := f.wt && envOKb o.cs f.params vs
          let c := match evalC o.cs vs f.body with
            | some v => toString v
            | none => "ub"
          let qf := emitFunc o.cs o.start f
          let p := Qbe.Prog.ofModule (moduleOf qf)
          let r := Qbe.runFunc p Qbe.noExt f.name (argsOf f.params vs) o.fuel
          let wfOk := match Qbe.wf (moduleOf qf) with
            | .ok () => true
            | .error _ => false
          out.putStrLn ((if okTy then "" else "wt=0 ") ++ (if wfOk then "" else "wf=0 ") ++
            "c=" ++ c ++ " il=" ++ r.end.render)
    | _ => out.putStrLn "bad line"
  out.flush
  return 0

def main (args : List String) : IO UInt32 := do
  let (o, rest) := takeOpts args {}
  match rest with
  | ["emit"] => cmdEmit o
  | ["eval"] => cmdEval o
  | _ =>
    IO.eprintln "usage: drv_c01 [--cs 0|1] [--start N] [--fuel N] [--cfuel N] emit|eval"
    return 2

import CprocVerif.Model.CharLit

/-! Line-protocol driver for property C14 (model of `utf.c` and of the literal handling in
`expr.c` / `scan.c`).  One output line per input line.

K-A (same protocol as `harness/utf_h.c`, which links `/repo/utf.c` only):
* `dec <hexbytes>`         → `<codepoint> <n>` | `invalid`      (`utf8dec(&c, s, 4)`, text NUL-terminated)
* `decn <n> <hexbytes>`    → the same with limit `n`
* `enc8 <cp>`              → hex bytes | `assert`
* `enc16 <cp>`             → 4-hex-digit units separated by spaces | `assert`
* `decblk <hexprefix> <k>` → for every `k`-byte suffix in lexicographic order the 6-hex-digit code
                             `n << 21 | cp` of `dec <prefix><suffix>`, `ffffff` = invalid, concatenated
* `enc8blk <start> <cnt>`  → `enc8` of `start .. start+cnt-1` separated by spaces, `!` = assert
* `enc16blk <start> <cnt>` → `enc16` of the same range, units concatenated, `!` = assert

Model only:
* `reads <n> <hexbytes>`     → number of bytes `utf8dec` reads
* `str <target> <hexlit>…`   → `ok <type> <alloc> <unit>…` | `err <kind>`   (adjacent string literal tokens)
* `chr <target> <hexlit>`    → `ok <type> <u64>` | `err <kind>`             (character constant token)
* anything else              → `bad-op`
-/

open CprocVerif CprocVerif.CharLit CprocVerif.Unicode

def hexDigit (c : Char) : Option Nat :=
  if '0' ≤ c ∧ c ≤ '9' then some (c.toNat - 48)
  else if 'a' ≤ c ∧ c ≤ 'f' then some (c.toNat - 87)
  else if 'A' ≤ c ∧ c ≤ 'F' then some (c.toNat - 55)
  else none

def parseHexBytes (s : String) : Option (List Nat) :=
  let rec go : List Char → List Nat → Option (List Nat)
    | [], acc => some acc.reverse
    | [_], _ => none
    | a :: b :: r, acc =>
      match hexDigit a, hexDigit b with
      | some x, some y => go r ((x * 16 + y) :: acc)
      | _, _ => none
  if s == "-" then some [] else go s.toList []

def hexNib (n : Nat) : Char := if n < 10 then Char.ofNat (48 + n) else Char.ofNat (87 + n)

def hexW (w n : Nat) : String :=
  String.ofList ((List.range w).reverse.map fun i => hexNib (n / 16 ^ i % 16))

def hexBytes (bs : List Nat) : String := String.join (bs.map (hexW 2))

def showDec (r : Option (Nat × Nat)) : String :=
  match r with
  | some (c, n) => toString c ++ " " ++ toString n
  | none => "invalid"

def code (r : Option (Nat × Nat)) : String :=
  match r with
  | some (c, n) => hexW 6 (n * 2 ^ 21 + c)
  | none => "ffffff"

/-- all `k`-byte suffixes in lexicographic order -/
def suffixes : Nat → List (List Nat)
  | 0 => [[]]
  | k + 1 => (List.range 256).flatMap fun b => (suffixes k).map (b :: ·)

def showType : CType → String
  | .char => "char" | .uchar => "uchar" | .ushort => "ushort" | .int => "int" | .uint => "uint"

def showErr : Err → String
  | .invalidUtf8 => "invalid-utf8" | .prefixMismatch => "prefix-mismatch" | .multiChar => "multi-char"
  | .badEscape => "bad-escape" | .badHex => "bad-hex" | .newline => "newline" | .nul => "nul"
  | .eof => "eof" | .notLiteral => "not-literal" | .assertion => "ASSERT" | .overrun => "OVERRUN"

def findTarget (name : String) : Option Target := alltargs.find? (·.name == name)

def step (line : String) : String :=
  match line.trimAscii.toString.splitOn " " with
  | ["dec", h] =>
    match parseHexBytes h with
    | some bs => showDec (utf8dec bs 4)
    | none => "bad-op"
  | ["decn", n, h] =>
    match n.toNat?, parseHexBytes h with
    | some n, some bs => showDec (utf8dec bs n)
    | _, _ => "bad-op"
  | ["reads", n, h] =>
    match n.toNat?, parseHexBytes h with
    | some n, some bs => toString (utf8decR bs n).2
    | _, _ => "bad-op"
  | ["enc8", c] =>
    match c.toNat? with
    | some c => if c < 2 ^ 32 then (match utf8enc c with | some bs => hexBytes bs | none => "assert") else "bad-op"
    | none => "bad-op"
  | ["enc16", c] =>
    match c.toNat? with
    | some c =>
      if c < 2 ^ 32 then
        (match utf16enc c with | some us => " ".intercalate (us.map (hexW 4)) | none => "assert")
      else "bad-op"
    | none => "bad-op"
  | ["decblk", h, k] =>
    match parseHexBytes h, k.toNat? with
    | some p, some k =>
      if k ≤ 2 then String.join ((suffixes k).map fun s => code (utf8dec (p ++ s) 4)) else "bad-op"
    | _, _ => "bad-op"
  | ["enc8blk", s, n] =>
    match s.toNat?, n.toNat? with
    | some s, some n =>
      if s + n ≤ 2 ^ 32 ∧ n ≤ 65536 then
        " ".intercalate ((List.range n).map fun i =>
          match utf8enc (s + i) with | some bs => hexBytes bs | none => "!")
      else "bad-op"
    | _, _ => "bad-op"
  | ["enc16blk", s, n] =>
    match s.toNat?, n.toNat? with
    | some s, some n =>
      if s + n ≤ 2 ^ 32 ∧ n ≤ 65536 then
        " ".intercalate ((List.range n).map fun i =>
          match utf16enc (s + i) with | some us => String.join (us.map (hexW 4)) | none => "!")
      else "bad-op"
    | _, _ => "bad-op"
  | "str" :: targ :: lits =>
    match findTarget targ, lits.mapM parseHexBytes with
    | some t, some ls =>
      match stringLiteral t ls with
      | .ok r => "ok " ++ showType r.ty ++ " " ++ toString r.alloc ++
          String.join (r.units.map fun u => " " ++ toString u)
      | .error e => "err " ++ showErr e
    | _, _ => "bad-op"
  | ["chr", targ, lit] =>
    match findTarget targ, parseHexBytes lit with
    | some t, some l =>
      match charLiteral t l with
      | .ok r => "ok " ++ showType r.1 ++ " " ++ toString r.2
      | .error e => "err " ++ showErr e
    | _, _ => "bad-op"
  | _ => "bad-op"

partial def loop (stdin stdout : IO.FS.Stream) : IO Unit := do
  let line ← stdin.getLine
  if line.isEmpty then
    return ()
  stdout.putStrLn (step line)
  loop stdin stdout

def main (_args : List String) : IO UInt32 := do
  let stdin ← IO.getStdin
  let stdout ← IO.getStdout
  loop stdin stdout
  stdout.flush
  return 0

import CprocVerif.Model.Scan
import CprocVerif.Model.PP
import CprocVerif.Spec.MacroRef
import CprocVerif.Lemmas.PPPre8

/-! Line-protocol driver for property C12 (model of the macro machinery of `pp.c`, and the
6.10.3 reference).

One output line per input line:
* `pp <hex>`   → the model's `next()` stream for the source text: `<tok> … [!<error class>] [@<events>] [%<class>]`
                 `<class>`: the unit is in the class of `CprocVerif.C12.function_like_correct_init` — its
                 leading directive lines, run through the model, leave a table `ms0` with `tblOKb ms0`, and
                 the rest of the text satisfies `textOKb ms0` — `F` when `ms0` has a function-like macro, else `O`;
                 `P` = `tblOKSb ms0` (function-like macros may use `# parameter`) and the text satisfies `textPb ms0`
                 (arguments that name object-like macros and hold nested invocations): the class of
                 `CprocVerif.C12.function_like_correct_total`, beyond `F`/`O`
                 `<tok>` = `<kind number>:<lit hex | ->:<space 0|1>`
* `ppnl <hex>` → the same with `PPNEWLINE` set (what `-E` does)
* `ref <hex>`  → the reference (`Spec/MacroRef.lean`): `<tok> … [!<error class>] [@<flags>]`, keywords converted
* `lex <hex>`  → the raw `scan()` stream with keywords converted, new-lines dropped
-/

open CprocVerif CprocVerif.Gen.TokenKinds

def hexDigit (c : Char) : Option Nat :=
  if '0' ≤ c ∧ c ≤ '9' then some (c.toNat - '0'.toNat)
  else if 'a' ≤ c ∧ c ≤ 'f' then some (c.toNat - 'a'.toNat + 10)
  else none

def parseHex (s : String) : Option (List UInt8) :=
  let rec go : List Char → List UInt8 → Option (List UInt8)
    | [], acc => some acc.reverse
    | [_], _ => none
    | a :: b :: r, acc =>
      match hexDigit a, hexDigit b with
      | some x, some y => go r ((x * 16 + y).toUInt8 :: acc)
      | _, _ => none
  go s.toList []

def hexOf (bs : List UInt8) : String :=
  let d (n : Nat) : Char := if n < 10 then Char.ofNat (48 + n) else Char.ofNat (87 + n)
  String.ofList (bs.foldr (fun b acc => d (b.toNat / 16) :: d (b.toNat % 16) :: acc) [])

def ofScan (t : Scan.Token) : PP.Tok := ⟨t.kind, t.lit, t.space, false⟩

/-- raw token list of a text; a scanner diagnostic becomes a `TNONE` token -/
def rawOf (bs : List UInt8) : List PP.Tok :=
  let r := Scan.tokensP bs
  r.1.map ofScan ++ (match r.2 with | none => [] | some _ => [⟨.TNONE, none, false, false⟩])

def errName : PP.Err → String
  | .fuel => "fuel" | .scan => "scan" | .defineName => "defineName"
  | .paramAfterEllipsis => "paramAfterEllipsis" | .paramComma => "paramComma" | .paramName => "paramName" | .dupParam => "dupParam"
  | .hashhash => "hashhash" | .vaArgs => "vaArgs" | .hashIdent => "hashIdent" | .hashNotParam => "hashNotParam"
  | .redefinition => "redefinition" | .undefName => "undefName" | .dirName => "dirName"
  | .dirUnimpl d => "dirUnimpl." ++ hexOf d | .dirInvalid => "dirInvalid" | .lineNumber => "lineNumber"
  | .dirTrailing => "dirTrailing" | .eofInArgs => "eofInArgs" | .notEnoughArgs => "notEnoughArgs"
  | .tooManyArgs => "tooManyArgs" | .assertFail => "assertFail"

def evName : PP.Event → String
  | .strNested => "strNested" | .emptySpace => "emptySpace" | .pragmaPeek => "pragmaPeek"
  | .dirInPeek => "dirInPeek" | .dirInArgs => "dirInArgs" | .depthConf => "depthConf"

def showTok (t : PP.Tok) : String :=
  let lit := match t.lit with
    | none => "-"
    | some l => if t.kind = Kind.TOTHER then hexOf (l.take 1) else hexOf l
  s!"{t.kind.toNat}:{lit}:{if t.space then 1 else 0}"

def FUEL : Nat := 20000
def MAXOUT : Nat := 6000

/-- the loop of `PP.run`, with an accumulator and the final state (for the ghost events) -/
def runAcc : Nat → PP.St → Array String → Array String × Option PP.Err × PP.St
  | 0, st, acc => (acc, some .fuel, st)
  | n + 1, st, acc =>
    match PP.exec FUEL .next st with
    | .error e => (acc, some e, st)
    | .ok st1 =>
      if st1.tok.kind = .TEOF then (acc.push (showTok st1.tok), none, st1)
      else runAcc n st1 (acc.push (showTok st1.tok))

/-- one line, its new-line included -/
def takeLine : List PP.Tok → List PP.Tok × List PP.Tok
  | [] => ([], [])
  | t :: r => if t.kind = .TNEWLINE then ([t], r) else ((takeLine r).1.cons t, (takeLine r).2)

/-- the directive lines (and empty lines) at the start, and the rest -/
def splitDirs : Nat → List PP.Tok → List PP.Tok × List PP.Tok
  | 0, l => ([], l)
  | _, [] => ([], [])
  | n + 1, t :: r =>
    if t.kind = .THASH then
      let ln := takeLine (t :: r)
      let more := splitDirs n ln.2
      (ln.1 ++ more.1, more.2)
    else if t.kind = .TNEWLINE then
      let more := splitDirs n r
      (t :: more.1, more.2)
    else ([], t :: r)

/-- membership in the class of `function_like_correct_total`, by the tests the theorem is stated with.
For a unit in the class the two gaps between the theorem and the unit are evaluated as well: the
theorem's reference side (`expandH` on the table the model built and the text after the directives)
against the reference on the whole unit (`expandUnit`: its own parse of the `#define` lines), and the
theorem's model side (the run from the state `{ raw := text, macros := table }`) against the model's
run on the whole unit; a difference is reported as class `X…` -/
def classOf (raw : List PP.Tok) (unit : List Spec.MacroRef.PTok) (whole : List String) (wholeErr : Bool) : String :=
  let sp := splitDirs raw.length raw
  match PP.exec FUEL .next (PP.St.init sp.1 false) with
  | .ok st1 =>
    if st1.tok.kind = .TEOF && st1.ctx.isEmpty && !st1.prag && PP.tblOKSb st1.macros && st1.macros.all (fun m => !m.hide) then
      let cls :=
        if PP.tblOKb st1.macros && PP.textOKb st1.macros (sp.2.length + 1) sp.2 then
          (if st1.macros.any (·.func) then "F" else "O")
        else if PP.textPb st1.macros (sp.2.length + 1) sp.2 then "P"
        else ""
      if cls = "" then ""
      else
        let o1 := Spec.MacroRef.expandH false 50000 (PP.tblF st1.macros) ((PP.absRawF sp.2).map .tok)
        let o2 := Spec.MacroRef.expandUnit 50000 unit
        let refGap : Bool :=
          o1.2.1 != some .fuel && o2.err != some .fuel &&
          (o1.2.1 != o2.err || o1.1.map (fun t => PP.kwKey t.tok.key) != o2.toks.map (fun t => PP.kwKey t.key))
        let r2 := runAcc MAXOUT { raw := sp.2, macros := st1.macros } #[]
        let modelGap : Bool := !wholeErr && r2.2.1.isNone && r2.1.toList != whole
        " %" ++ (if refGap then "Xref-" else if modelGap then "Xmodel-" else "") ++ cls
    else ""
  | .error _ => ""

def showModel (bs : List UInt8) (ppnl : Bool) : String :=
  let raw := rawOf bs
  let r := runAcc MAXOUT (PP.St.init raw ppnl) #[]
  let toks := " ".intercalate r.1.toList
  let e := match r.2.1 with | none => "" | some e => " !" ++ errName e
  let evs := r.2.2.events.eraseDups
  let ev := if evs.isEmpty then "" else " @" ++ ",".intercalate (evs.map evName)
  let sc := Scan.tokensP bs
  let unit : List Spec.MacroRef.PTok :=
    sc.1.map (fun t => ⟨t.kind, t.lit, t.space⟩) ++ (match sc.2 with | none => [] | some _ => [⟨.TNONE, none, false⟩])
  toks ++ e ++ ev ++ (if ppnl then "" else classOf raw unit r.1.toList r.2.1.isSome)

def refErr : Spec.MacroRef.RErr → String
  | .fuel => "fuel" | .lex => "lex" | .badDefine => "badDefine" | .dupParam => "dupParam" | .vaArgs => "vaArgs"
  | .hashParam => "hashParam" | .hashhash => "hashhash" | .redefinition => "redefinition" | .redefinitionSpace => "redefinitionSpace" | .badUndef => "badUndef"
  | .badDirective => "badDirective" | .unsupported => "unsupported" | .badLine => "badLine" | .trailing => "trailing"
  | .unterminated => "unterminated" | .argCount => "argCount"

def refFlag : Spec.MacroRef.Flag → String
  | .nestUnspec => "nestUnspec" | .dirInArgs => "dirInArgs" | .crossInvocation => "crossInvocation"
  | .dirAfterName => "dirAfterName" | .strOfInvocation => "strOfInvocation" | .emptyWithSpace => "emptyWithSpace"

def showRef (bs : List UInt8) : String :=
  let r := Scan.tokensP bs
  let unit : List Spec.MacroRef.PTok :=
    r.1.map (fun t => ⟨t.kind, t.lit, t.space⟩) ++ (match r.2 with | none => [] | some _ => [⟨.TNONE, none, false⟩])
  let o := Spec.MacroRef.expandUnit 50000 unit
  let o2 := Spec.MacroRef.expandUnit 50000 unit true
  let differs := o.toks.map (·.key) != o2.toks.map (·.key) || o.err != o2.err
  let toks := o.toks.map fun t => showTok (PP.toKeyword ⟨t.kind, t.lit, t.space, false⟩)
  let e := match o.err with | none => "" | some e => " !" ++ refErr e
  let fl := (o.flags.eraseDups.map refFlag) ++ (if differs then ["strictDiffers"] else [])
  let f := if fl.isEmpty then "" else " @" ++ ",".intercalate fl
  " ".intercalate toks ++ e ++ f

def showLex (bs : List UInt8) : String :=
  let r := Scan.tokensP bs
  let ts := (r.1.filter (·.kind ≠ Kind.TNEWLINE)).map fun t => PP.toKeyword (ofScan t)
  " ".intercalate (ts.map showTok) ++ (match r.2 with | none => "" | some _ => " !scan")

def step (line : String) : String :=
  match line.trimAscii.toString.splitOn " " with
  | [op] => step1 op []
  | [op, h] => match parseHex h with | some bs => step1 op bs | none => "bad-op"
  | _ => "bad-op"
where
  step1 (op : String) (bs : List UInt8) : String :=
    if op = "pp" then showModel bs false
    else if op = "ppnl" then showModel bs true
    else if op = "ref" then showRef bs
    else if op = "lex" then showLex bs
    else "bad-op"

partial def loop (stdin stdout : IO.FS.Stream) : IO Unit := do
  let line ← stdin.getLine
  if line.isEmpty then
    return ()
  stdout.putStrLn (step line)
  loop stdin stdout

def main (_args : List String) : IO UInt32 := do
  let stdin ← IO.getStdin
  let stdout ← IO.getStdout
  loop stdin stdout
  stdout.flush
  return 0

import CprocVerif.Model.Scan
import CprocVerif.Spec.Lex

/-! Line-protocol driver for property C13 (model of `scan.c` + `pp.c:keyword`, and the 6.4 spec).

One output line per input line (same protocol as `harness/scan_h.c`):
* `raw <hex>`  → `<tok> <tok> … [!<line>.<col>:<errkind>]`
                 `<tok>` = `<kind number>:<lit hex | ->:=:<line>.<col>:<space 0|1>`
* `pp <hex>`   → the same after dropping `TNEWLINE` tokens and converting keywords (what `next()`
                 delivers for a text without directives and macros)
* `spec <hex>` → the reference lexer of `Spec/Lex.lean` on the phase-2 text:
                 `<class>:<lexeme hex>:<space>` per preprocessing token, `!<reason>` when the text
                 has no tokenisation (unterminated literal or comment)
* `kw <hex>`   → `Spec.keywordOf`: kind number or `-`
* anything else → `bad-op`
-/

open CprocVerif CprocVerif.Scan CprocVerif.Gen.TokenKinds

def hexDigit (c : Char) : Option Nat :=
  if '0' ≤ c ∧ c ≤ '9' then some (c.toNat - '0'.toNat)
  else if 'a' ≤ c ∧ c ≤ 'f' then some (c.toNat - 'a'.toNat + 10)
  else none

def parseHex (s : String) : Option (List UInt8) :=
  let rec go : List Char → List UInt8 → Option (List UInt8)
    | [], acc => some acc.reverse
    | [_], _ => none
    | a :: b :: r, acc =>
      match hexDigit a, hexDigit b with
      | some x, some y => go r ((x * 16 + y).toUInt8 :: acc)
      | _, _ => none
  go s.toList []

def hexOf (bs : List UInt8) : String :=
  let d (n : Nat) : Char := if n < 10 then Char.ofNat (48 + n) else Char.ofNat (87 + n)
  String.ofList (bs.foldr (fun b acc => d (b.toNat / 16) :: d (b.toNat % 16) :: acc) [])

def errName : ErrKind → String
  | .hexEscape => "hexEscape" | .escape => "escape" | .nlChar => "nlChar" | .nulChar => "nulChar"
  | .eofChar => "eofChar" | .nlStr => "nlStr" | .nulStr => "nulStr" | .eofStr => "eofStr"
  | .eofComment => "eofComment" | .fuel => "fuel"

def showTok (t : Token) : String :=
  let lit := match t.lit with
    | none => "-"
    | some l => if t.kind = Kind.TOTHER then hexOf (l.take 1) else hexOf l
  s!"{t.kind.toNat}:{lit}:=:{t.loc.line}.{t.loc.col}:{if t.space then 1 else 0}"

def showRun (r : List Token × Option Err) : String :=
  let toks := " ".intercalate (r.1.map showTok)
  match r.2 with
  | none => toks
  | some e => toks ++ s!" !{e.loc.line}.{e.loc.col}:{errName e.kind}"

def showSpec (r : List Spec.Lex.PPToken × Option String) : String :=
  let toks := " ".intercalate (r.1.map fun t =>
    s!"{t.cls.name}:{hexOf t.lexeme}:{if t.space then 1 else 0}")
  match r.2 with
  | none => toks
  | some e => toks ++ " !" ++ e

def step (line : String) : String :=
  match line.trimAscii.toString.splitOn " " with
  | ["raw"] => showRun (tokensP [])
  | ["pp"] => showRun (tokensP [])
  | ["spec"] => showSpec (Spec.Lex.lex [])
  | ["raw", h] =>
    match parseHex h with
    | some bs => showRun (tokensP bs)
    | none => "bad-op"
  | ["pp", h] =>
    match parseHex h with
    | some bs =>
      let r := tokensP bs
      showRun ((r.1.filter (·.kind ≠ Kind.TNEWLINE)).map Token.toKeyword, r.2)
    | none => "bad-op"
  | ["spec", h] =>
    match parseHex h with
    | some bs => showSpec (Spec.Lex.lex (unsplice bs))
    | none => "bad-op"
  | ["kw", h] =>
    match parseHex h with
    | some bs => match Spec.Lex.keywordOf bs with
      | some k => toString k.toNat
      | none => "-"
    | none => "bad-op"
  | _ => "bad-op"

partial def loop (stdin stdout : IO.FS.Stream) : IO Unit := do
  let line ← stdin.getLine
  if line.isEmpty then
    return ()
  stdout.putStrLn (step line)
  loop stdin stdout

def main (_args : List String) : IO UInt32 := do
  let stdin ← IO.getStdin
  let stdout ← IO.getStdout
  loop stdin stdout
  stdout.flush
  return 0

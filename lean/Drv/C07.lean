import CprocVerif.Model.Init
import CprocVerif.Spec.Image
import CprocVerif.Spec.InitRef
import CprocVerif.Spec.InitClass
import CprocVerif.Model.InitAuto

/-! Line-protocol driver for property C07 (model of `init.c` / `qbe.c:emitdata`, and the spec).

One output line per input line.

Syntax
* init `I`  : `<start>,<stop>,<before>,<after>,<val>`; val = `i<w>:<u>` | `f<w>:<bits>` |
              `a<sym>+<off>` | `s<w>:<c>/<c>/…` | `o`
* type `T`  : `i<cls>.<size>.<signed>` | `f<size>` | `p` | `A<n>(T)` |
              `S<tag>.<size>{m;m;…}` | `U<tag>.<size>{…}`, m = `<name>:<off>.<before>.<after>:T`
              (name `_` = anonymous member)
* initialiser `N`: `n<int>.<nz>.<f32>.<f64>` | `a<sym>+<off>` | `s<w>.<cls>:<c>/<c>/…` | `g<tag>` |
              `x` | `{item;item;…}`, item = `N` or designators (`[k]`, `.name`) `=` `N`
* image     : two hex digits per byte, `[sym+addend:k]` for byte `k` of an address

Ops
* `initadd tok…` (tok = `I` or `R` = reset of `p->last`) → `<cursor list> | <list built from the head>`
* `emit <size> I…`   → `ok <items> | <image>` or `error`
* `image <size> I…`  → spec image of the writes in the given order
* `parse <inc> T N`  → `ok <size> <anon> <hyp> | <writes> | <cursor list> | <head list>` (hyp: the hypotheses of `emitdata_image_ev` hold) / `error <msg>` / `undef <msg>`
* `full <inc> T N`   → `ok <size> | <image>` / `error …` / `undef …` / `emit-error`
* `spec <inc> T N`   → `ok <size> <nswitch> <nreinit> | <writes> | <image>` / `error <msg>`
* `auto <inc> T N`   → `ok <size> | <memory>`: the bytes of the automatic object after the model of `funcinit`
                      (memory 0xa5 before) / `error …`
* `autoclass <inc> T N` → `yes` / `no`: is the pair in the class of `auto_image_correct`
* `imgclass <inc> T N` → is the pair in the class of `static_image_correct`: `yes` / `no:<first failing hypothesis>`
* `class <inc> T N`  → is the pair in the class of `parseinit_refines_ref` (`Props/C07.lean`): `braced` / `elided`
                      (no designators; fully braced, resp. with brace elision), `desig` (with designators), or
                      `none:<first failing hypothesis>` (`tywf`, `top`, `switch`)
-/

open CprocVerif.Init CprocVerif.Image CprocVerif.InitRef CprocVerif.InitSim

abbrev P := StateT (List Char) Option

def peek : P (Option Char) := fun s => some (s.head?, s)
def adv : P Unit := fun s => some ((), s.tail)
def expectC (c : Char) : P Unit := fun s => match s with | d :: r => if c = d then some ((), r) else none | [] => none
def failP {α} : P α := fun _ => none

partial def takeWhileP (f : Char → Bool) : P String := fun s =>
  let a := s.takeWhile f
  some (String.ofList a, s.drop a.length)

def natP : P Nat := do
  let s ← takeWhileP Char.isDigit
  match s.toNat? with | some n => pure n | none => failP

def intP : P Int := do
  match ← peek with
  | some '-' => adv; let n ← natP; pure (-(n : Int))
  | _ => let n ← natP; pure (n : Int)

def isNameChar (c : Char) : Bool := c.isAlphanum || c == '_' || c == '$' || c == '@' || c == '.'

partial def charsP : P (List Nat) := do
  match ← peek with
  | some c =>
    if c.isDigit then
      let n ← natP
      match ← peek with
      | some '/' => adv; let r ← charsP; pure (n :: r)
      | _ => pure [n]
    else pure []
  | none => pure []

def valP : P Val := do
  match ← peek with
  | some 'i' => adv; let w ← natP; expectC ':'; let u ← natP; pure (.int w u)
  | some 'f' => adv; let w ← natP; expectC ':'; let u ← natP; pure (.flt w u)
  | some 'a' => adv; let s ← takeWhileP isNameChar; expectC '+'; let o ← natP; pure (.addr s o)
  | some 's' => adv; let w ← natP; expectC ':'; let cs ← charsP; pure (.str w cs)
  | some 'o' => adv; pure .other
  | _ => failP

def initP : P Init := do
  let a ← natP; expectC ','; let b ← natP; expectC ','; let c ← natP; expectC ','; let d ← natP; expectC ','
  let v ← valP
  pure ⟨a, b, c, d, v⟩

mutual
  partial def tyP : P Ty := do
    match ← peek with
    | some 'i' => adv; let c ← natP; expectC '.'; let s ← natP; expectC '.'; let g ← natP; pure (.scalar s (.int c (g != 0)))
    | some 'f' => adv; let s ← natP; pure (.scalar s .flt)
    | some 'p' => adv; pure (.scalar 8 .ptr)
    | some 'A' => adv; let n ← natP; expectC '('; let e ← tyP; expectC ')'; pure (.array n e)
    | some 'S' => adv; let t ← natP; expectC '.'; let s ← natP; expectC '{'; let ms ← msP; pure (.agg false t s ms)
    | some 'U' => adv; let t ← natP; expectC '.'; let s ← natP; expectC '{'; let ms ← msP; pure (.agg true t s ms)
    | _ => failP
  partial def msP : P Members := do
    match ← peek with
    | some '}' => adv; pure .nil
    | some ';' => adv; msP
    | _ =>
      let name ← takeWhileP (fun c => c.isAlphanum || c == '_'); expectC ':'
      let o ← natP; expectC '.'; let b ← natP; expectC '.'; let a ← natP; expectC ':'
      let t ← tyP
      let r ← msP
      pure (.cons (if name == "_" then none else some name) t o b a r)
end

partial def desigsP : P (List Desig) := do
  match ← peek with
  | some '[' => adv; let n ← natP; expectC ']'; let r ← desigsP; pure (.idx n :: r)
  | some '.' => adv; let s ← takeWhileP (fun c => c.isAlphanum || c == '_'); let r ← desigsP; pure (.fld s :: r)
  | some '=' => adv; pure []
  | _ => failP

mutual
  partial def iniP : P Ini := do
    match ← peek with
    | some 'n' =>
      adv; let i ← intP; expectC '.'; let nz ← natP; expectC '.'; let a ← natP; expectC '.'; let b ← natP
      pure (.expr (.num i (nz != 0) a b))
    | some 'a' => adv; let s ← takeWhileP isNameChar; expectC '+'; let o ← natP; pure (.expr (.addr s o))
    | some 's' => adv; let w ← natP; expectC '.'; let c ← natP; expectC ':'; let cs ← charsP; pure (.expr (.str w c cs))
    | some 'g' => adv; let t ← natP; pure (.expr (.agg t))
    | some 'x' => adv; pure (.expr .nonconst)
    | some '{' => adv; let its ← itemsP; pure (.list its)
    | _ => failP
  partial def itemsP : P Items := do
    match ← peek with
    | some '}' => adv; pure .nil
    | some ';' => adv; itemsP
    | some c =>
      let ds ← if c == '[' || c == '.' then desigsP else pure []
      let i ← iniP
      let r ← itemsP
      pure (.cons ds i r)
    | none => failP
end

def runP {α} (p : P α) (s : String) : Option α :=
  match p s.toList with
  | some (a, []) => some a
  | _ => none

/-! printing -/

def sepBy (s : String) (l : List String) : String := s.intercalate l

def showVal : Val → String
  | .int w u => s!"i{w}:{u}"
  | .flt w b => s!"f{w}:{b}"
  | .addr s o => s!"a{s}+{o}"
  | .str w cs => s!"s{w}:" ++ sepBy "/" (cs.map toString)
  | .other => "o"

def showInit (i : Init) : String := s!"{i.start},{i.stop},{i.before},{i.after},{showVal i.val}"
def showInits (l : List Init) : String := sepBy " " (l.map showInit)
def showEv : Ev → String
  | .add i => showInit i
  | .clear a b => s!"c{a},{b}"
def showEvs (l : List Ev) : String := sepBy " " (l.map showEv)

def showItem : Item → String
  | .z n => s!"z{n}"
  | .num w v => s!"n{w}:{v}"
  | .flt w b => s!"f{w}:{b}"
  | .addr s o => s!"a{s}+{o}"
  | .str w cs pad => s!"s{w}:" ++ sepBy "/" (cs.map toString) ++ s!"+{pad}"

def hex2 (n : Nat) : String :=
  let d := fun (k : Nat) => (Nat.toDigits 16 k).head!
  String.ofList [d (n / 16 % 16), d (n % 16)]

def showCell : Cell → String
  | .byte n => hex2 n
  | .rel s a k => s!"[{s}+{a}:{k}]"

def showImage (l : List Cell) : String := String.join (l.map showCell)

def showErr : Err → String
  | .diag m => "error " ++ m
  | .undef m => "undef " ++ m

def parseTyIni (inc t n : String) : Option (Bool × Ty × Ini) :=
  match runP tyP t, runP iniP n with
  | some ty, some ini => some (inc != "0", ty, ini)
  | _, _ => none

def step (line : String) : String :=
  match (line.trimAscii.toString.splitOn " ").filter (· ≠ "") with
  | "initadd" :: toks =>
    let r := toks.foldl (fun (acc : Option (IList × List Init)) t =>
      match acc with
      | none => none
      | some (il, hd) =>
        if t == "R" then some (il.reset, hd)
        else match runP initP t with
          | some i => some (il.add i, initadd hd i)
          | none => none) (some ({}, []))
    match r with
    | some (il, hd) => showInits il.toList ++ " | " ++ showInits hd
    | none => "bad-op"
  | "emit" :: size :: toks =>
    match size.toNat?, toks.mapM (runP initP) with
    | some sz, some l =>
      match emitdata sz l with
      | some items => "ok " ++ sepBy " " (items.map showItem) ++ " | " ++ showImage (bytes items)
      | none => "error"
    | _, _ => "bad-op"
  | "image" :: size :: toks =>
    match size.toNat?, toks.mapM (runP initP) with
    | some sz, some l => showImage (image sz l)
    | _, _ => "bad-op"
  | ["parse", inc, t, n] =>
    match parseTyIni inc t n with
    | some (inc, ty, ini) =>
      match parseinit ty inc ini with
      | .ok st =>
        s!"ok {st.top} {if st.anon then 1 else 0} {if evsOKB st.top [] st.log then 1 else 0} | " ++ showEvs st.log ++ " | " ++ showInits st.il.toList ++ " | "
          ++ showInits (st.log.foldl applyEv [])
      | .error e => showErr e
    | none => "bad-op"
  | ["full", inc, t, n] =>
    match parseTyIni inc t n with
    | some (inc, ty, ini) =>
      match parseinit ty inc ini with
      | .ok st =>
        match emitdata st.top st.il.toList with
        | some items => s!"ok {st.top} | " ++ showImage (bytes items)
        | none => "emit-error"
      | .error e => showErr e
    | none => "bad-op"
  | ["spec", inc, t, n] =>
    match parseTyIni inc t n with
    | some (inc, ty, ini) =>
      match ref ty inc ini with
      | .ok r => s!"ok {r.size} {r.nswitch} {r.nreinit} | " ++ showInits r.writes ++ " | " ++ showImage (image r.size r.writes)
      | .error e => "error " ++ e
    | none => "bad-op"
  | ["class", inc, t, n] =>
    match parseTyIni inc t n with
    | some (inc, ty, ini) =>
      if !tyWfFor ty inc then "none:tywf"
      else if !topOK ty ini then "none:top"
      else if !noSwitch ty inc ini then "none:switch"
      else if !refClass ty inc ini then "none:other"
      else if !noDesig ini then "desig"
      else if fullyBraced ty ini then "braced" else "elided"
    | none => "bad-op"
  | ["auto", inc, t, n] =>
    match parseTyIni inc t n with
    | some (inc, ty, ini) =>
      match parseinit ty inc ini with
      | .ok st =>
        s!"ok {st.top} | " ++ showImage (CprocVerif.InitAuto.funcinit st.top (List.replicate st.top (.byte 0xa5)) st.il.toList)
      | .error e => showErr e
    | none => "bad-op"
  | ["autoclass", inc, t, n] =>
    match parseTyIni inc t n with
    | some (inc, ty, ini) => if autoClass ty inc ini then "yes" else "no"
    | none => "bad-op"
  | ["imgclass", inc, t, n] =>
    match parseTyIni inc t n with
    | some (inc, ty, ini) =>
      if !refClass ty inc ini then "no:refclass"
      else if inc && !incFlat ty ini then "no:inc-nested"
      else if !layOK ty then "no:layout"
      else if !desigsOK (subTys ty) ini then "no:union-member-desig"
      else if !strsOK ini then "no:strwidth"
      else if !constVals ty inc ini then "no:nonconst"
      else if imgClass ty inc ini then "yes" else "no:other"
    | none => "bad-op"
  | _ => "bad-op"

partial def loop (stdin stdout : IO.FS.Stream) : IO Unit := do
  let line ← stdin.getLine
  if line.isEmpty then
    return ()
  stdout.putStrLn (step line)
  loop stdin stdout

def main (_args : List String) : IO UInt32 := do
  let stdin ← IO.getStdin
  let stdout ← IO.getStdout
  loop stdin stdout
  stdout.flush
  return 0

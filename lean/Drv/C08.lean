import CprocVerif.Model.AbiDesc
import CprocVerif.Spec.QbeLayout

/-! Line-protocol driver for property C08 (aggregate descriptors, signatures, call sites).

One output line per input line.  Tokens are separated by single spaces.

```
type   := bool|char|schar|uchar|short|ushort|int|uint|long|ulong|llong|ullong|float|double|ldouble
        | e:<basic>                enum with that underlying type
        | ptr                      any pointer
        | V                        `__builtin_va_list` of the target
        | B<size>:<align>:<0|1>    member-less struct object of targ.c (1: it is targ->typevalist)
        | A <len|?> type           array
        | S { field* } | SP { field* } | U { field* } | UP { field* }
field  := m <name|-> <align> type  | b <name|-> <width> type        (as in drv_c06)
qty    := b|h|w|l|s|d | S( (qty n)* ) | U( (A( (qty n)* ))* ) | O<align>:<size>
fld    := <offset>:<size>:<i|f|o>
cls    := b|h|w|l|s|d | ub|sb|uh|sh | :<qty> | ...
```
* `type <target> <type>` → `ok <qty> | <qsize> <qalign> | <fld>* | <csize> <calign> | <fld>* | <fld>* | <0|1> | <class>*`
     model descriptor; QBE's reading of it; the C type: size, alignment, flattened fields, the
     same with bit-field units merged; `FieldsEquiv` (bytes below the larger size); the excluded
     classes the type falls into (`Spec/QbeLayout.classes`);
     `fatal` / `error <kind>` when the model says the compiler dies / rejects the type
* `qinfo <qty>` → `<size> <align> | <fld>*`                          (Spec/QbeLayout only)
* `func <target> <0|1 variadic> <ret type|void> ; <param type> ; …`
     → `ok <cls|-> ; <cls> ; … [; ...] | <abi cls|-> ; <abi cls> ; …`   (model | spec)
* `call <target> <0|1> <ret|void> ; <param> ; … | <arg type> ; …`
     → `ok <cls|-> ; <cls or ...> ; … | <abi cls|-> ; <abi cls or ...> ; …`
* `vaarg <target> <type>` → `ok <cls>` / `error`
* `valist <target>` → `<kind> <size> <align> | <kind> <size> <align>`   (targ.c | psABI)
-/

open CprocVerif CprocVerif.Layout CprocVerif.AbiDesc CprocVerif.QbeLayout CprocVerif.Types

def basicOf (s : String) : Option Basic :=
  Basic.all.find? fun b => (b.var.drop 4).toString == s

def targetRow (t : String) : Option Gen.Targets.Row := Gen.Targets.table.find? (·.name == t)

def abiTarget (t : String) : Abi.Target :=
  if t == "aarch64" then Abi.aarch64 else if t == "riscv64" then Abi.riscv64 else Abi.x86_64

mutual
  partial def parseType (tg : String) : List String → Option (AType × List String)
    | [] => none
    | tok :: rest =>
      if tok == "A" then
        match rest with
        | l :: rest' =>
          let len : Option (Option Nat) := if l == "?" then some none else l.toNat?.map some
          match len, parseType tg rest' with
          | some len, some (e, rest'') => some (.array e len, rest'')
          | _, _ => none
        | [] => none
      else if tok == "S" || tok == "SP" || tok == "U" || tok == "UP" then
        match rest with
        | "{" :: rest' =>
          match parseFields tg rest' with
          | some (fs, rest'') => some (.su (tok == "U" || tok == "UP") (tok == "SP" || tok == "UP") fs, rest'')
          | none => none
        | _ => none
      else if tok == "ptr" then some (.sc .ptr, rest)
      else if tok == "V" then (valist tg).map (·, rest)
      else if tok.startsWith "B" then
        match (tok.drop 1).toString.splitOn ":" with
        | [s, a, d] =>
          match s.toNat?, a.toNat? with
          | some s, some a => some (.blob s a (d == "1"), rest)
          | _, _ => none
        | _ => none
      else if tok.startsWith "e:" then
        (basicOf (tok.drop 2).toString).map fun b => (.sc (.arith (.enum 0 b)), rest)
      else (basicOf tok).map fun b => (.sc (.arith (.basic b)), rest)
  partial def parseFields (tg : String) : List String → Option (AFields × List String)
    | "}" :: rest => some (.nil, rest)
    | k :: name :: n :: rest =>
      if k == "m" || k == "b" then
        match n.toNat?, parseType tg rest with
        | some n, some (ty, rest') =>
          match parseFields tg rest' with
          | some (fs, rest'') =>
            let nm := if name == "-" then none else some name
            some (if k == "m" then .cons nm ty n none fs else .cons nm ty 0 (some n) fs, rest'')
          | none => none
        | _, _ => none
      else none
    | _ => none
end

def parseWhole (tg : String) (toks : List String) : Option AType :=
  match parseType tg toks with
  | some (t, []) => some t
  | _ => none

def splitOnTok (sep : String) (toks : List String) : List (List String) :=
  let rec go (cur : List String) (acc : List (List String)) : List String → List (List String)
    | [] => (cur.reverse :: acc).reverse
    | t :: ts => if t == sep then go [] (cur.reverse :: acc) ts else go (t :: cur) acc ts
  go [] [] toks

mutual
  partial def showQ : QTy → String
    | .base c => c.toString
    | .opaque a s => s!"O{a}:{s}"
    | .struct fs => "S( " ++ showQF fs ++ ")"
    | .union as => "U( " ++ showQA as ++ ")"
  partial def showQF : QFields → String
    | .nil => ""
    | .cons t n rest => showQ t ++ " " ++ toString n ++ " " ++ showQF rest
  partial def showQA : QAlts → String
    | .nil => ""
    | .cons fs rest => "A( " ++ showQF fs ++ ") " ++ showQA rest
end

def baseOfTok (s : String) : Option Base :=
  [Base.b, .h, .w, .l, .s, .d].find? (·.toString == s)

mutual
  partial def parseQ : List String → Option (QTy × List String)
    | [] => none
    | tok :: rest =>
      if tok == "S(" then (parseQF rest).map fun (fs, r) => (.struct fs, r)
      else if tok == "U(" then (parseQA rest).map fun (as, r) => (.union as, r)
      else if tok.startsWith "O" then
        match (tok.drop 1).toString.splitOn ":" with
        | [a, s] =>
          match a.toNat?, s.toNat? with
          | some a, some s => some (.opaque a s, rest)
          | _, _ => none
        | _ => none
      else (baseOfTok tok).map fun c => (.base c, rest)
  partial def parseQF : List String → Option (QFields × List String)
    | ")" :: rest => some (.nil, rest)
    | toks =>
      match parseQ toks with
      | some (t, n :: rest) =>
        match n.toNat?, parseQF rest with
        | some n, some (fs, r) => some (.cons t n fs, r)
        | _, _ => none
      | _ => none
  partial def parseQA : List String → Option (QAlts × List String)
    | ")" :: rest => some (.nil, rest)
    | "A(" :: rest =>
      match parseQF rest with
      | some (fs, r) => (parseQA r).map fun (as, r') => (.cons fs as, r')
      | none => none
    | _ => none
end

def showKind : QbeLayout.Kind → String
  | .int => "i" | .flt => "f" | .opaque => "o"

def showFlds (fs : List Fld) : String :=
  " ".intercalate (fs.map fun f => s!"{f.off}:{f.size}:{showKind f.kind}")

def showCls : Cls → String
  | .base c => c.toString
  | .agg t => ":" ++ showQ t

def showAbi : AbiCls → String
  | .base c => c.toString
  | .sub n sg => (if sg then "s" else "u") ++ (if n == 1 then "b" else if n == 2 then "h" else "?")
  | .agg t => ":" ++ showQ t

def doType (tg : String) (toks : List String) : String :=
  match parseWhole tg toks with
  | none => "bad-op"
  | some t =>
    match Layout.tinfo (erase t) with
    | .error e => "error " ++ e.toString
    | .ok _ =>
      match emittype t with
      | none => "fatal"
      | some q =>
        let T := abiTarget tg
        let i := info q
        let c := Abi.tinfo T (erase t)
        let fc := flattenC T false t
        let eq := fieldsEquivB (max i.size c.size + 1) i.flds fc
        let cl := (classes T t).eraseDups
        s!"ok {showQ q} | {i.size} {i.align} | {showFlds i.flds} | {c.size} {c.align} | {showFlds fc} | {showFlds (flattenC T true t)} | {if eq then 1 else 0} | {" ".intercalate cl}"

def doQinfo (toks : List String) : String :=
  match parseQ toks with
  | some (q, []) => let i := info q; s!"{i.size} {i.align} | {showFlds i.flds}"
  | _ => "bad-op"

def parseTypes (tg : String) (groups : List (List String)) : Option (List AType) :=
  let r := groups.map (parseWhole tg)
  if r.all Option.isSome then some (r.filterMap id) else none

def parseRet (tg : String) (toks : List String) : Option (Option AType) :=
  if toks == ["void"] then some none else (parseWhole tg toks).map some

def showOpt {α} (f : α → String) : Option α → String
  | none => "-"
  | some a => f a

def specRet (sc : Bool) (r : Option AType) : String :=
  match r with
  | none => "-"
  | some t => showOpt showAbi (abiClass sc emittype t)

def doFunc (tg : String) (toks : List String) : String :=
  match targetRow tg, toks with
  | some row, v :: rest =>
    match splitOnTok ";" rest with
    | rt :: ps =>
      match parseRet tg rt, parseTypes tg ps with
      | some ret, some params =>
        let f : FuncTy := ⟨ret, params, v == "1"⟩
        match emitfunc f with
        | none => "fatal"
        | some sg =>
          let m := [showOpt showCls sg.ret] ++ sg.params.map showCls ++ (if sg.variadic then ["..."] else [])
          let sp := [specRet row.signedchar ret] ++
            (f.adjusted.map fun t => showOpt showAbi (abiClass row.signedchar emittype t)) ++
            (if f.variadic then ["..."] else [])
          "ok " ++ " ; ".intercalate m ++ " | " ++ " ; ".intercalate sp
      | _, _ => "bad-op"
    | [] => "bad-op"
  | _, _ => "bad-op"

/-- 6.5.2.2p7: named parameters take the parameter's (adjusted) type, the rest are promoted -/
def specArgs (sc : Bool) (f : FuncTy) (args : List AType) : List String :=
  let n := f.params.length
  let named := (f.adjusted.zip args).map fun (p, _) => showOpt showAbi (abiClass sc emittype p)
  let rest := (args.drop n).map fun a => showOpt showAbi (abiClass sc emittype (defaultPromote sc (decay a)))
  named ++ (if f.variadic then ["..."] else []) ++ rest

def doCall (tg : String) (toks : List String) : String :=
  match targetRow tg, toks with
  | some row, v :: rest =>
    match splitOnTok "|" rest with
    | [sigToks, argToks] =>
      match splitOnTok ";" sigToks with
      | rt :: ps =>
        let argGroups := if argToks.isEmpty then [] else splitOnTok ";" argToks
        match parseRet tg rt, parseTypes tg ps, parseTypes tg argGroups with
        | some ret, some params, some args =>
          let f : FuncTy := ⟨ret, params, v == "1"⟩
          match emitcall row.signedchar f args with
          | none => "fatal"
          | some cs =>
            let m := [showOpt showCls cs.ret] ++ cs.args.map (fun a => match a with | none => "..." | some c => showCls c)
            let sp := [specRet row.signedchar ret] ++ specArgs row.signedchar f args
            "ok " ++ " ; ".intercalate m ++ " | " ++ " ; ".intercalate sp
        | _, _, _ => "bad-op"
      | [] => "bad-op"
    | _ => "bad-op"
  | _, _ => "bad-op"

def doVaarg (tg : String) (toks : List String) : String :=
  match parseWhole tg toks with
  | none => "bad-op"
  | some t =>
    match vaargClass t with
    | some c => "ok " ++ c.toString
    | none => "error"

def doValist (tg : String) : String :=
  match targetRow tg, psabiVaList tg with
  | some r, some (k, s, a) => s!"{r.valistKind} {r.valistSize} {r.valistAlign} | {k} {s} {a}"
  | _, _ => "bad-op"

def step (line : String) : String :=
  match (line.trimAscii.toString.splitOn " ").filter (· ≠ "") with
  | "type" :: tg :: rest => doType tg rest
  | "qinfo" :: rest => doQinfo rest
  | "func" :: tg :: rest => doFunc tg rest
  | "call" :: tg :: rest => doCall tg rest
  | "vaarg" :: tg :: rest => doVaarg tg rest
  | ["valist", tg] => doValist tg
  | _ => "bad-op"

partial def loop (stdin stdout : IO.FS.Stream) : IO Unit := do
  let line ← stdin.getLine
  if line.isEmpty then
    return ()
  stdout.putStrLn (step line)
  loop stdin stdout

def main (_args : List String) : IO UInt32 := do
  let stdin ← IO.getStdin
  let stdout ← IO.getStdout
  loop stdin stdout
  stdout.flush
  return 0

/-! Line-protocol driver for property C08 (stub until the model exists). -/
def main (_args : List String) : IO UInt32 := do
  IO.eprintln "drv_c08: no model yet"
  return 2

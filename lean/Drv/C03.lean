import CprocVerif.Spec.Qbe
import CprocVerif.Spec.QbeParse
import CprocVerif.Spec.QbeWf
/-! Line-protocol driver for property C03 (QBE IL: parser, well-formedness, interpreter). -/

open CprocVerif.Qbe

def parseHexOrDec (s : String) : Option Nat :=
  if s.startsWith "0x" then
    (s.drop 2).toString.foldl (fun acc c =>
      acc.bind fun n =>
        if c.isDigit then some (n * 16 + (c.toNat - 48))
        else if 'a' ≤ c ∧ c ≤ 'f' then some (n * 16 + (c.toNat - 87))
        else if 'A' ≤ c ∧ c ≤ 'F' then some (n * 16 + (c.toNat - 55))
        else none) (some 0)
  else if s.startsWith "-" then
    (s.drop 1).toString.toNat?.map fun n => (2 ^ 64 - n % 2 ^ 64) % 2 ^ 64
  else s.toNat?

/-- `w:5`, `l:18446744073709551615`, `d:0x3ff0000000000000`, `s:0x3f800000` -/
def parseArg (s : String) : Except String (Ty × RVal) :=
  match s.splitOn ":" with
  | [k, v] =>
    match parseHexOrDec v with
    | none => .error ("bad argument value: " ++ s)
    | some n =>
      match k with
      | "w" => .ok (.base .w, ⟨.w, (n % 2 ^ 32).toUInt64⟩)
      | "l" => .ok (.base .l, ⟨.l, n.toUInt64⟩)
      | "s" => .ok (.base .s, ⟨.s, (n % 2 ^ 32).toUInt64⟩)
      | "d" => .ok (.base .d, ⟨.d, n.toUInt64⟩)
      | _ => .error ("bad argument class: " ++ s)
  | _ => .error ("bad argument: " ++ s)

def parseArgs (as : List String) : Except String (List (Ty × RVal)) :=
  as.mapM parseArg

def defaultFuel : Nat := 100000000

def loadModule (file : String) : IO (Except String Module) := do
  try
    let bytes ← IO.FS.readBinFile file
    pure (parseModuleBytes bytes)
  catch e =>
    pure (.error ("cannot read " ++ file ++ ": " ++ (toString e).replace "\n" " "))

def countDefs (m : Module) : Nat × Nat × Nat :=
  m.defs.foldl (fun (acc : Nat × Nat × Nat) d =>
    match d with
    | .func _ => (acc.1 + 1, acc.2.1, acc.2.2)
    | .data _ => (acc.1, acc.2.1 + 1, acc.2.2)
    | .type _ => (acc.1, acc.2.1, acc.2.2 + 1)) (0, 0, 0)

def cmdWf (files : List String) : IO UInt32 := do
  let out ← IO.getStdout
  for f in files do
    match (← loadModule f) with
    | .error e => out.putStrLn ("bad parse: " ++ e)
    | .ok m =>
      match wf m with
      | .error e => out.putStrLn ("bad " ++ e)
      | .ok () =>
        let (nf, nd, nt) := countDefs m
        out.putStrLn s!"ok {nf} {nd} {nt}"
  return 0

def b01 (b : Bool) : String := if b then "1" else "0"

/-- `dataSize` computed arithmetically (the specification `Qbe.dataSize` materialises the image, which is hopeless for
`z 9223372036854775807`); compared with `dataSize` itself whenever the object is small. -/
def dataSizeFast (d : DataDef) : Nat :=
  d.items.foldl (fun acc it =>
    match it with
    | .zero n => acc + n
    | .vals t vs => vs.foldl (fun acc v => match v with
        | .str s => acc + s.size
        | _ => acc + t.size) acc) 0

def sizeOf' (d : DataDef) : Nat :=
  let f := dataSizeFast d
  if f ≤ 1048576 then dataSize d else f

def cmdSizes (file : String) : IO UInt32 := do
  match (← loadModule file) with
  | .error e => IO.println ("bad parse: " ++ e); return 1
  | .ok m =>
    for d in m.datas do
      IO.println s!"{d.name} {sizeOf' d} {dataAlign d} {b01 d.export} {b01 d.thread}"
    return 0

def cmdImage (file : String) : IO UInt32 := do
  match (← loadModule file) with
  | .error e => IO.println ("bad parse: " ++ e); return 1
  | .ok m =>
    for d in m.datas do
      if dataSizeFast d > 1048576 then
        IO.println s!"{d.name} {dataAlign d} -"      -- too large to materialise
        continue
      let (img, rel) := d.image
      let rs := rel.foldl (fun s r => s ++ s!" reloc {r.off} {r.sym} {r.addend.toNat}") ""
      IO.println s!"{d.name} {dataAlign d} {hexBytes img}{rs}"
    return 0

/-- `sizes`/`image` for many files in one process: the lines of each file are preceded by `== <file>`
(process start-up dominates when hundreds of small modules are inspected one by one). -/
def cmdMany (img : Bool) (files : List String) : IO UInt32 := do
  for f in files do
    IO.println ("== " ++ f)
    let _ ← if img then cmdImage f else cmdSizes f
  return 0

/-- Split `--fuel N` out of an argument list. -/
def takeFuel : List String → Nat → List String → Nat × List String
  | "--fuel" :: n :: rest, fuel, acc => takeFuel rest (n.toNat?.getD fuel) acc
  | a :: rest, fuel, acc => takeFuel rest fuel (a :: acc)
  | [], fuel, acc => (fuel, acc.reverse)

def cmdRun (file func : String) (rest : List String) : IO UInt32 := do
  match (← loadModule file) with
  | .error e => IO.println ("bad parse: " ++ e); return 1
  | .ok m =>
    let (fuel, as) := takeFuel rest defaultFuel []
    match parseArgs as with
    | .error e => IO.println ("bad " ++ e); return 1
    | .ok args =>
      let p := Prog.ofModule m
      let o := runFunc p builtinExt func args fuel
      let out ← IO.getStdout
      for l in o.trace do out.putStrLn l
      out.putStrLn o.end.render
      return 0

def cmdRunMany (file : String) : IO UInt32 := do
  match (← loadModule file) with
  | .error e => IO.println ("bad parse: " ++ e); return 1
  | .ok m =>
    let p := Prog.ofModule m
    let stdin ← IO.getStdin
    let out ← IO.getStdout
    repeat
      let line ← stdin.getLine
      if line.isEmpty then break
      let ws := (line.trimAscii.toString.splitOn " ").filter (· ≠ "")
      match ws with
      | [] => pure ()
      | func :: rest =>
        let (fuel, as) := takeFuel rest defaultFuel []
        match parseArgs as with
        | .error e => out.putStrLn ("bad " ++ e)
        | .ok args =>
          let o := runFunc p builtinExt func args fuel
          out.putStrLn (" ; ".intercalate (o.trace.toList ++ [o.end.render]))
    out.flush
    return 0

def main (args : List String) : IO UInt32 := do
  match args with
  | "wf" :: files => cmdWf files
  | ["sizes", file] => cmdSizes file
  | ["image", file] => cmdImage file
  | "sizesmany" :: files => cmdMany false files
  | "imagemany" :: files => cmdMany true files
  | "run" :: file :: func :: rest => cmdRun file func rest
  | ["runmany", file] => cmdRunMany file
  | _ =>
    IO.eprintln "usage: drv_c03 wf FILE… | sizes FILE | image FILE | run FILE FUNC [--fuel N] ARG… | runmany FILE"
    return 2

import CprocVerif.Model.Tree

/-! Line-protocol driver for property C15 (model of `tree.c` and of the `casesearch` ladder).

One output line per input line; state = current tree (initially empty):
* `reset`            → `ok`
* `ins <key>`        → `<new> <dump>` (`<new>` = 1 if newly inserted; dump in preorder,
                        node = `(<key> <storedheight> <left> <right>)`, empty tree = `-`)
* `insq <key>`       → `<new>` only;  `dump` → the dump
* `search <w|l> <v>` → `case <key>` or `default`
* `key <4|8> <0|1> <i>` → `caseKey size signed i` in decimal (conversion done by `switchcase`)
* anything else      → `bad-op`
-/

open CprocVerif.Tree

def parseU64 (s : String) : Option Nat :=
  match s.toNat? with
  | some n => if n < 2 ^ 64 then some n else none
  | none => none

def step (t : T) (line : String) : T × String :=
  match line.trimAscii.toString.splitOn " " with
  | ["reset"] => (T.nil, "ok")
  | ["ins", k] =>
    match parseU64 k with
    | some key =>
      let r := ins t key
      (r.1, (if r.2.2 then "1 " else "0 ") ++ dump r.1)
    | none => (t, "bad-op")
  | ["insq", k] =>
    match parseU64 k with
    | some key =>
      let r := ins t key
      (r.1, if r.2.2 then "1" else "0")
    | none => (t, "bad-op")
  | ["dump"] => (t, dump t)
  | ["search", c, v] =>
    match (if c == "w" then some true else if c == "l" then some false else none), parseU64 v with
    | some w, some x =>
      match search w t x with
      | some k => (t, "case " ++ toString k)
      | none => (t, "default")
    | _, _ => (t, "bad-op")
  | ["key", sz, sg, i] =>
    match (if sz == "4" then some 4 else if sz == "8" then some 8 else none),
          (if sg == "1" then some true else if sg == "0" then some false else none), parseU64 i with
    | some size, some signed, some x => (t, toString (caseKey size signed x))
    | _, _, _ => (t, "bad-op")
  | _ => (t, "bad-op")

partial def loop (stdin stdout : IO.FS.Stream) (t : T) : IO Unit := do
  let line ← stdin.getLine
  if line.isEmpty then
    return ()
  let (t', out) := step t line
  stdout.putStrLn out
  loop stdin stdout t'

def main (_args : List String) : IO UInt32 := do
  let stdin ← IO.getStdin
  let stdout ← IO.getStdout
  loop stdin stdout T.nil
  stdout.flush
  return 0

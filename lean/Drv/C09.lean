import CprocVerif.Model.Linkage
import CprocVerif.Spec.Link

/-! Line-protocol driver for property C09 (model of linkage bookkeeping in `decl.c`, and the C11
spec `Spec/Link.lean`).

A history is a blank-separated list of forms `<scope><kind><storage><def>[@<label>]`:
* scope   `F` file, `B` block (innermost open block / new function body), `N` nested (new `{`)
* kind    `o` object (`int x`), `f` function (`int x(void)`)
* storage `n` none, `s` static, `e` extern; objects also `t` `_Thread_local`, `u` `static _Thread_local`,
          `v` `extern _Thread_local`; functions also `i` inline, `k` static inline, `j` extern inline
* def     `1` with initialiser / body, `0` without
* label   `a` / `b`: `__asm__("<id>_a")`

Input lines:
* `<history>`        → `error <reason>` or `ok <outcome> main=… locals=… undef=…`
* `spec <history>`   → `ok <outcome> main=… locals=… undef=…` | `violates <clause>` |
                       `undefined-behaviour <clause>` | `unspecified <clause>`, then ` dev=<flags>`
* anything else      → `bad-op`

A symbol is `<name>:<d|f>:<e|l>:<t|->:<z|->` (data/function, export/local, thread, zero-initialised);
a name is `x` (the identifier), `@a` (label), `L<n>` (`$.Lx.<n>`, the n-th unique local).
`<outcome>` is the canonical class of the identifier's own symbol: `def export`, `def local`,
`def export thread`, `def local thread`, `tentative→def …`, `undef-ref`, `none`, `multiple`.
-/

open CprocVerif.Linkage

def parseForm (w : String) : Option Form :=
  let (core, lab) := match w.splitOn "@" with
    | [c] => (c, some none)
    | [c, "a"] => (c, some (some Label.a))
    | [c, "b"] => (c, some (some Label.b))
    | _ => (w, none)
  match core.toList, lab with
  | [s, k, st, d], some asm =>
    let scope := match s with | 'F' => some Scope.file | 'B' => some Scope.block | 'N' => some Scope.nested | _ => none
    let kind := match k with | 'o' => some Kind.obj | 'f' => some Kind.func | _ => none
    let hd := match d with | '0' => some false | '1' => some true | _ => none
    let stf : Option (SC × Bool) := match k, st with
      | _, 'n' => some (SC.none, false) | _, 's' => some (SC.static, false) | _, 'e' => some (SC.extern, false)
      | 'o', 't' => some (SC.none, true) | 'o', 'u' => some (SC.static, true) | 'o', 'v' => some (SC.extern, true)
      | 'f', 'i' => some (SC.none, true) | 'f', 'k' => some (SC.static, true) | 'f', 'j' => some (SC.extern, true)
      | _, _ => none
    match scope, kind, hd, stf with
    | some scope, some kind, some hd, some (sc, flag) =>
      some { kind := kind, sc := sc, flag := flag, scope := scope, hasDef := hd, asm := asm }
    | _, _, _, _ => none
  | _, _ => none

def parseHist (ws : List String) : Option (List Form) :=
  ws.mapM parseForm

def showName : SymName → String
  | .plain => "x"
  | .asm .a => "@a"
  | .asm .b => "@b"
  | .loc n => "L" ++ toString n

def showSym (y : Sym) : String :=
  showName y.name ++ ":" ++ (if y.isFunc then "f" else "d") ++ ":" ++ (if y.exported then "e" else "l")
    ++ ":" ++ (if y.thread then "t" else "-") ++ ":" ++ (if y.zero then "z" else "-")

def showRef (r : Ref) : String := showName r.name ++ (if r.thread then ":t" else ":-")

def outcome (t : SymTab) : String :=
  match t.main with
  | [] => if t.undef.isEmpty then "none" else "undef-ref"
  | [y] => (if y.zero then "tentative→def " else "def ") ++ (if y.exported then "export" else "local")
            ++ (if y.thread then " thread" else "")
  | _ => "multiple"

def showTab (t : SymTab) : String :=
  outcome t ++ " main=" ++ ",".intercalate (t.main.map showSym) ++ " locals=" ++
    ",".intercalate (t.locals.map showSym) ++ " undef=" ++ ",".intercalate (t.undef.map showRef)

def showErr (e : Err) : String := (reprStr e).replace "CprocVerif.Linkage.Err." ""

def answer (line : String) : String :=
  match (line.trimAscii.toString.splitOn " ").filter (· ≠ "") with
  | "spec" :: ws =>
    match parseHist ws with
    | some h => CprocVerif.Link.render h showTab
    | none => "bad-op"
  | ws =>
    match parseHist ws with
    | some h =>
      match run h with
      | .ok s => "ok " ++ showTab (symbols s)
      | .error e => "error " ++ showErr e
    | none => "bad-op"

partial def loop (stdin stdout : IO.FS.Stream) : IO Unit := do
  let line ← stdin.getLine
  if line.isEmpty then
    return ()
  stdout.putStrLn (answer line)
  loop stdin stdout

def main (_args : List String) : IO UInt32 := do
  let stdin ← IO.getStdin
  let stdout ← IO.getStdout
  loop stdin stdout
  stdout.flush
  return 0

import CprocVerif.Model.Types
import CprocVerif.Spec.Conv
import CprocVerif.Spec.Constraints

/-! Line-protocol driver for property C05 (model of `type.c`/`targ.c`/the typing half of `expr.c`
and the executable C11 spec predicates of `Spec/Conv.lean`).

One output line per input line.  State: the selected target (initially `x86_64-sysv`).

Types (prefix notation, space separated tokens):
  `bool char schar uchar short ushort int uint long ulong llong ullong float double ldouble`,
  `e<id>:<base>` (enum type object `id` over `<base>`), `void`, `nullptr`, `s<id>`, `u<id>`,
  `p<q> T` (pointer; q = qualifier mask of the referenced type: 1 const, 2 restrict, 4 volatile),
  `a<q> <len> <pq> T` (len = `-` incomplete, `*` VLA, or a number; pq = qualifiers inside `[]`),
  `f<q> <vararg 0|1> <n> R P1 … Pn`.
Widths: `-` (not a bit-field) or a number.

Model ops:
  `targ <name>`                          → `ok` | `unknown-target`
  `promote <aty> <w>`                    → aty
  `commonreal <aty> <w> <aty> <w>`       → aty | `fatal`
  `hasint <aty> <v> <sign 0|1>`          → 0 | 1
  `compat T | T`                         → 0 | 1
  `adjust <q> T`                         → `<T> <q>` | `assert`
  `inttype <v> <decimal 0|1> <sfx|->`    → `ty <basic>` | `badsuffix` | `notype`
  `enumbase <min> <max>`                 → basic | `none`
  `typeof E`                             → `<T> q=<q> lv=<0|1> w=<w> nc=<0|1> dk=<0|1> ok=<0|1>` | `error`
        (`ok` = every node of E satisfies the Spec predicate of its operator, given the model's
        operands for the sub-expressions)
Spec ops (prefix `S`):
  `Spromote <aty> <w>` → aty;  `Susual <aty> <w> <aty> <w> <aty>` → 0|1;  `Srange <aty> <v> <sign>` → 0|1
  `Sliteral <v> <decimal> <sfx|->` → basic | `notype` | `badsuffix`;  `Scompat T | T` → 0|1
  `Sbinok <op> <Lw> <Lnc> T | <Rw> <Rnc> T | T` → 0|1;   `Scondok <Lw> <Lnc> T | <Rw> <Rnc> T | T` → 0|1
  `Schar <prefix>` → basic;  `Starget` → `<charsigned> <wchar>`
Expressions E: `var <q> T`, `rv T`, `bf <q> <w> <aty>` (bit-field lvalue), `int <v> <dec> <sfx|->`,
  `flt <sfx|->`, `chr <none|L|u|U|u8>`, `un <op> E`, `bin <op> E E`, `cond E E E`, `cast T E`,
  `sizeoft T`, `asg E E`, `opasg <op> E E`, `comma E E`, `call <n> E E1 … En`,
  `mem <arrow 0|1> <mq> <bits|-> T E`, `idx E E`.
-/

open CprocVerif.Types
open CprocVerif

abbrev Toks := List String

def basicNames : List (String × Basic) :=
  [("bool", .bool), ("char", .char), ("schar", .schar), ("uchar", .uchar), ("short", .short),
   ("ushort", .ushort), ("int", .int), ("uint", .uint), ("long", .long), ("ulong", .ulong),
   ("llong", .llong), ("ullong", .ullong), ("float", .float), ("double", .double), ("ldouble", .ldouble)]

def basicName (b : Basic) : String :=
  match basicNames.find? (·.2 == b) with
  | some p => p.1
  | none => "?"

def parseBasic (s : String) : Option Basic := basicNames.lookup s

def parseATy (s : String) : Option ATy :=
  match parseBasic s with
  | some b => some (.basic b)
  | none =>
    if s.startsWith "e" then
      match (s.drop 1).toString.splitOn ":" with
      | [i, b] =>
        match i.toNat?, parseBasic b with
        | some i, some b => some (.enum i b)
        | _, _ => none
      | _ => none
    else none

def showATy : ATy → String
  | .basic b => basicName b
  | .enum i b => s!"e{i}:{basicName b}"

def parseW (s : String) : Option (Option Nat) :=
  if s == "-" then some none else s.toNat?.map some

def showW : Option Nat → String
  | none => "-"
  | some n => toString n

def parseBool (s : String) : Option Bool :=
  if s == "1" then some true else if s == "0" then some false else none

def b01 (b : Bool) : String := if b then "1" else "0"

def suffixArg (s : String) : String := if s == "-" then "" else s

partial def parseTy : Toks → Option (Ty × Toks)
  | [] => none
  | t :: rest =>
    if t == "void" then some (.void, rest)
    else if t == "nullptr" then some (.nullptr, rest)
    else match parseATy t with
    | some a => some (.arith a, rest)
    | none =>
      let c := t.take 1 |>.toString
      let n := (t.drop 1).toString
      if c == "s" then n.toNat?.map (fun i => (.struct i, rest))
      else if c == "u" then n.toNat?.map (fun i => (.union i, rest))
      else if c == "p" then
        match n.toNat?, parseTy rest with
        | some q, some (b, r) => some (.ptr (Qual.ofNat q) b, r)
        | _, _ => none
      else if c == "a" then
        match n.toNat?, rest with
        | some q, len :: pq :: r =>
          let l : Option ArrLen := if len == "-" then some .incomplete else if len == "*" then some .vla
            else len.toNat?.map .const
          match l, pq.toNat?, parseTy r with
          | some l, some pq, some (b, r') => some (.arr (Qual.ofNat q) l (Qual.ofNat pq) b, r')
          | _, _, _ => none
        | _, _ => none
      else if c == "f" then
        match n.toNat?, rest with
        | some q, v :: cnt :: r =>
          match parseBool v, cnt.toNat?, parseTy r with
          | some v, some cnt, some (ret, r') =>
            let rec params (k : Nat) (ts : Toks) (acc : List Ty) : Option (List Ty × Toks) :=
              match k with
              | 0 => some (acc.reverse, ts)
              | k + 1 =>
                match parseTy ts with
                | some (p, ts') => params k ts' (p :: acc)
                | none => none
            match params cnt r' [] with
            | some (ps, r'') => some (.func (Qual.ofNat q) ret ps v, r'')
            | none => none
          | _, _, _ => none
        | _, _ => none
      else none

partial def showTy : Ty → String
  | .void => "void"
  | .nullptr => "nullptr"
  | .arith a => showATy a
  | .struct i => s!"s{i}"
  | .union i => s!"u{i}"
  | .ptr q b => s!"p{q.toNat} {showTy b}"
  | .arr q l pq b =>
    let ls := match l with | .incomplete => "-" | .vla => "*" | .const n => toString n
    s!"a{q.toNat} {ls} {pq.toNat} {showTy b}"
  | .func q r ps v =>
    let pss := ps.foldl (fun acc p => acc ++ " " ++ showTy p) ""
    s!"f{q.toNat} {b01 v} {ps.length} {showTy r}{pss}"

def binOps : List (String × BinOp) :=
  [("lor", .lor), ("land", .land), ("eql", .eql), ("neq", .neq), ("less", .less), ("greater", .greater),
   ("leq", .leq), ("geq", .geq), ("bor", .bor), ("xor", .xor), ("band", .band), ("add", .add),
   ("sub", .sub), ("mod", .mod), ("mul", .mul), ("div", .div), ("shl", .shl), ("shr", .shr)]

def unOps : List (String × UnOp) :=
  [("addr", .addr), ("deref", .deref), ("plus", .plus), ("minus", .minus), ("bnot", .bnot), ("lnot", .lnot),
   ("sizeof", .sizeofE), ("alignof", .alignofE), ("preinc", .preinc), ("predec", .predec),
   ("postinc", .postinc), ("postdec", .postdec)]

def charPrefixes : List (String × CharPrefix) :=
  [("none", .none), ("L", .L), ("u", .u), ("U", .U), ("u8", .u8)]

partial def parseExpr : Toks → Option (Expr × Toks)
  | [] => none
  | t :: rest =>
    if t == "var" then
      match rest with
      | q :: r =>
        match q.toNat?, parseTy r with
        | some q, some (ty, r') => some (.var ty (Qual.ofNat q), r')
        | _, _ => none
      | _ => none
    else if t == "rv" then (parseTy rest).map (fun p => (.rv p.1, p.2))
    else if t == "bf" then
      -- a bit-field lvalue: member `w`-bit of an (unqualified or q-qualified) struct object
      match rest with
      | q :: w :: a :: r =>
        match q.toNat?, w.toNat?, parseATy a with
        | some q, some w, some a =>
          some (.member false (.var (.struct 0) (Qual.ofNat q)) (.arith a) Qual.none (some w), r)
        | _, _, _ => none
      | _ => none
    else if t == "int" then
      match rest with
      | v :: d :: s :: r =>
        match v.toNat?, parseBool d with
        | some v, some d => some (.intlit v d (suffixArg s), r)
        | _, _ => none
      | _ => none
    else if t == "flt" then
      match rest with
      | s :: r => some (.fltlit (suffixArg s), r)
      | _ => none
    else if t == "chr" then
      match rest with
      | p :: r => (charPrefixes.lookup p).map (fun p => (.charlit p, r))
      | _ => none
    else if t == "un" then
      match rest with
      | op :: r =>
        match unOps.lookup op, parseExpr r with
        | some op, some (e, r') => some (.un op e, r')
        | _, _ => none
      | _ => none
    else if t == "bin" || t == "opasg" then
      match rest with
      | op :: r =>
        match binOps.lookup op, parseExpr r with
        | some op, some (a, r') =>
          match parseExpr r' with
          | some (b, r'') => some (if t == "bin" then .bin op a b else .opassign op a b, r'')
          | none => none
        | _, _ => none
      | _ => none
    else if t == "cond" then
      match parseExpr rest with
      | some (c, r1) =>
        match parseExpr r1 with
        | some (a, r2) =>
          match parseExpr r2 with
          | some (b, r3) => some (.cond c a b, r3)
          | none => none
        | none => none
      | none => none
    else if t == "cast" then
      match parseTy rest with
      | some (ty, r) => (parseExpr r).map (fun p => (.cast ty p.1, p.2))
      | none => none
    else if t == "sizeoft" then (parseTy rest).map (fun p => (.sizeofT p.1, p.2))
    else if t == "asg" || t == "comma" || t == "idx" then
      match parseExpr rest with
      | some (a, r1) =>
        match parseExpr r1 with
        | some (b, r2) =>
          some (if t == "asg" then .assign a b else if t == "comma" then .comma a b else .index a b, r2)
        | none => none
      | none => none
    else if t == "call" then
      match rest with
      | n :: r =>
        match n.toNat?, parseExpr r with
        | some n, some (f, r') =>
          let rec args (k : Nat) (ts : Toks) (acc : List Expr) : Option (List Expr × Toks) :=
            match k with
            | 0 => some (acc.reverse, ts)
            | k + 1 =>
              match parseExpr ts with
              | some (e, ts') => args k ts' (e :: acc)
              | none => none
          (args n r' []).map (fun p => (.call f p.1, p.2))
        | _, _ => none
      | _ => none
    else if t == "mem" then
      match rest with
      | arrow :: mq :: bits :: r =>
        match parseBool arrow, mq.toNat?, parseW bits, parseTy r with
        | some arrow, some mq, some bits, some (mty, r') =>
          (parseExpr r').map (fun p => (.member arrow p.1 mty (Qual.ofNat mq) bits, p.2))
        | _, _, _, _ => none
      | _ => none
    else none

/-- model operand of `e` together with "every node satisfies its Spec predicate" -/
partial def typeChk (tg : Target) (cs : Bool) : Expr → Option (Operand × Bool)
  | e =>
    let res := typeOf tg e
    match res with
    | none => none
    | some o =>
      let sub (x : Expr) : Option (Operand × Bool) := typeChk tg cs x
      match e with
      | .var .. | .rv .. => some (o, true)
      | .intlit v d s =>
        let ok := match Spec.parseSuffix s with
          | some sfx => Spec.literalType cs v d sfx == (match o.ty with | .arith (.basic b) => some b | _ => none)
          | none => false
        some (o, ok)
      | .fltlit s => some (o, (Spec.floatLiteralType s).map (fun b => Ty.arith (.basic b)) == some o.ty)
      | .charlit p =>
        let ts := Spec.targetSpecs.find? (·.name == tg.name)
        some (o, ts.map (fun ts => Ty.arith (.basic (Spec.charConstType ts p))) == some o.ty)
      | .un op x => (sub x).map (fun p => (o, p.2 && Spec.unaryOk cs op p.1 o))
      | .bin op a b =>
        match sub a, sub b with
        | some p, some q => some (o, p.2 && q.2 && Spec.binopOk cs op p.1 q.1 o.ty)
        | _, _ => none
      | .cond c a b =>
        match sub c, sub a, sub b with
        | some r, some p, some q => some (o, r.2 && p.2 && q.2 && r.1.ty.isScalar && Spec.condOk cs p.1 q.1 o.ty)
        | _, _, _ => none
      | .cast t x => (sub x).map (fun p => (o, p.2 && Spec.castOk t p.1 o))
      | .sizeofT t => some (o, !t.incomplete && !t.isFunc && o.ty == Spec.sizeofType)
      | .assign a b =>
        match sub a, sub b with
        | some p, some q => some (o, p.2 && q.2 && Spec.assignOk p.1 o && Spec.Constraints.simpleAssign p.1.ty q.1)
        | _, _ => none
      | .opassign op a b =>
        match sub a, sub b with
        | some p, some q =>
          -- 6.5.16.2: `E1 op= E2` needs `E1 op E2` to be valid; type of the left operand
          let valid := (binopType cs op { p.1 with decayedFrom := none } q.1).any
            (fun t => Spec.binopOk cs op p.1 q.1 t)
          some (o, p.2 && q.2 && valid && Spec.assignOk p.1 o)
        | _, _ => none
      | .comma a b =>
        match sub a, sub b with
        | some p, some q => some (o, p.2 && q.2 && Spec.commaOk q.1 o)
        | _, _ => none
      | .call f args =>
        match sub f with
        | some p => some (o, p.2 && (args.all (fun a => ((sub a).map (·.2)).getD false)) && Spec.callOk p.1 args.length o)
        | none => none
      | .member arrow x mty mq _ => (sub x).map (fun p => (o, p.2 && Spec.memberOk arrow p.1 mty mq o))
      | .index a b =>
        match sub a, sub b with
        | some p, some q =>
          -- 6.5.2.1: `E1[E2]` is `*((E1)+(E2))`
          let sumOk := fun (t : Ty) => Spec.binopOk cs .add p.1 q.1 t &&
            Spec.unaryOk cs .deref (rvalue t) o
          let cand := match p.1.ty, q.1.ty with
            | .ptr .., _ => some p.1.ty
            | _, .ptr .. => some q.1.ty
            | _, _ => none
          some (o, p.2 && q.2 && (cand.map sumOk).getD false)
        | _, _ => none

structure St where
  tg : Target

def initSt : St := ⟨⟨"x86_64-sysv", .int, true⟩⟩

def splitBar (ts : Toks) : List Toks :=
  let rec go (ts : Toks) (cur : Toks) (acc : List Toks) : List Toks :=
    match ts with
    | [] => (cur.reverse :: acc).reverse
    | "|" :: r => go r [] (cur.reverse :: acc)
    | t :: r => go r (t :: cur) acc
  go ts [] []

def parseTyAll (ts : Toks) : Option Ty :=
  match parseTy ts with
  | some (t, []) => some t
  | _ => none

/-- `<w> <nullconst> T` -/
def parseOperandSpec (ts : Toks) : Option Operand :=
  match ts with
  | w :: nc :: r =>
    match parseW w, parseBool nc, parseTyAll r with
    | some w, some nc, some t => some { ty := t, width := w, nullconst := nc }
    | _, _, _ => none
  | _ => none

def showLit : LitResult → String
  | .ty b => "ty " ++ basicName b
  | .badSuffix => "badsuffix"
  | .noType => "notype"

def step (st : St) (line : String) : St × String :=
  let sc := st.tg.signedchar
  let toks := (line.trimAscii.toString.splitOn " ").filter (· ≠ "")
  match toks with
  | ["targ", name] =>
    match findTarget name with
    | some t => (⟨t⟩, "ok")
    | none => (st, "unknown-target")
  | ["promote", a, w] =>
    match parseATy a, parseW w with
    | some a, some w => (st, showATy (typepromote sc a w))
    | _, _ => (st, "bad-op")
  | ["commonreal", a, w, b, v] =>
    match parseATy a, parseW w, parseATy b, parseW v with
    | some a, some w, some b, some v =>
      (st, match typecommonreal sc a w b v with | some r => showATy r | none => "fatal")
    | _, _, _, _ => (st, "bad-op")
  | ["hasint", a, v, s] =>
    match parseATy a, v.toNat?, parseBool s with
    | some a, some v, some s => (st, b01 (typehasint sc a v s))
    | _, _, _ => (st, "bad-op")
  | "compat" :: rest =>
    match (splitBar rest).map parseTyAll with
    | [some a, some b] => (st, b01 (typecompatible a b))
    | _ => (st, "bad-op")
  | "adjust" :: q :: rest =>
    match q.toNat?, parseTyAll rest with
    | some q, some t =>
      (st, match typeadjust t (Qual.ofNat q) with
           | some (t', q') => s!"{showTy t'} {q'.toNat}"
           | none => "assert")
    | _, _ => (st, "bad-op")
  | ["inttype", v, d, s] =>
    match v.toNat?, parseBool d with
    | some v, some d => (st, showLit (inttype sc v d (suffixArg s)))
    | _, _ => (st, "bad-op")
  | ["enumbase", mn, mx] =>
    match mn.toNat?, mx.toNat? with
    | some mn, some mx => (st, match enumBase sc mn mx with | some b => basicName b | none => "none")
    | _, _ => (st, "bad-op")
  | "typeof" :: rest =>
    match parseExpr rest with
    | some (e, []) =>
      (st, match typeChk st.tg sc e with
           | some (o, ok) =>
             s!"{showTy o.ty} q={o.qual.toNat} lv={b01 o.lvalue} w={showW o.width} nc={b01 o.nullconst} dk={b01 o.decayedFrom.isSome} ok={b01 ok}"
           | none => "error")
    | _ => (st, "bad-op")
  | ["Spromote", a, w] =>
    match parseATy a, parseW w with
    | some a, some w => (st, showATy (Spec.promote sc a w))
    | _, _ => (st, "bad-op")
  | ["Susual", a, w, b, v, r] =>
    match parseATy a, parseW w, parseATy b, parseW v, parseATy r with
    | some a, some w, some b, some v, some r => (st, b01 (Spec.usualArith sc a w b v r))
    | _, _, _, _, _ => (st, "bad-op")
  | ["Srange", a, v, s] =>
    match parseATy a, v.toNat?, parseBool s with
    | some a, some v, some s => (st, b01 (decide (Spec.inRange (Spec.range sc a) (Spec.decode v s))))
    | _, _, _ => (st, "bad-op")
  | ["Sliteral", v, d, s] =>
    match v.toNat?, parseBool d with
    | some v, some d =>
      (st, match Spec.parseSuffix (suffixArg s) with
           | none => "badsuffix"
           | some sfx => match Spec.literalType sc v d sfx with | some b => basicName b | none => "notype")
    | _, _ => (st, "bad-op")
  | "Scompat" :: rest =>
    match (splitBar rest).map parseTyAll with
    | [some a, some b] => (st, b01 (Spec.compatible a b))
    | _ => (st, "bad-op")
  | "Sbinok" :: op :: rest =>
    match binOps.lookup op, splitBar rest with
    | some op, [l, r, t] =>
      match parseOperandSpec l, parseOperandSpec r, parseTyAll t with
      | some l, some r, some t => (st, b01 (Spec.binopOk sc op l r t))
      | _, _, _ => (st, "bad-op")
    | _, _ => (st, "bad-op")
  | "Scondok" :: rest =>
    match splitBar rest with
    | [l, r, t] =>
      match parseOperandSpec l, parseOperandSpec r, parseTyAll t with
      | some l, some r, some t => (st, b01 (Spec.condOk sc l r t))
      | _, _, _ => (st, "bad-op")
    | _ => (st, "bad-op")
  | ["Schar", p] =>
    match charPrefixes.lookup p, Spec.targetSpecs.find? (·.name == st.tg.name) with
    | some p, some ts => (st, basicName (Spec.charConstType ts p))
    | _, _ => (st, "bad-op")
  | ["Starget"] =>
    match Spec.targetSpecs.find? (·.name == st.tg.name) with
    | some ts => (st, s!"{b01 ts.charSigned} {basicName ts.wchar}")
    | none => (st, "bad-op")
  | _ => (st, "bad-op")

partial def loop (stdin stdout : IO.FS.Stream) (st : St) : IO Unit := do
  let line ← stdin.getLine
  if line.isEmpty then
    return ()
  let (st', out) := step st line
  stdout.putStrLn out
  loop stdin stdout st'

def main (_args : List String) : IO UInt32 := do
  let stdin ← IO.getStdin
  let stdout ← IO.getStdout
  loop stdin stdout initSt
  stdout.flush
  return 0

import CprocVerif.Model.Map
import CprocVerif.Model.Scope
/-! Line-protocol driver for property C16 (map.c / scope.c model side). -/
open CprocVerif CprocVerif.Map CprocVerif.Scope

namespace DrvC16

def hexVal (c : Char) : Option Nat :=
  if '0' ≤ c ∧ c ≤ '9' then some (c.toNat - '0'.toNat)
  else if 'a' ≤ c ∧ c ≤ 'f' then some (c.toNat - 'a'.toNat + 10)
  else if 'A' ≤ c ∧ c ≤ 'F' then some (c.toNat - 'A'.toNat + 10)
  else none

def parseHexList : List Char → Option (List Nat)
  | [] => some []
  | [_] => none
  | a :: b :: rest => do
    let x ← hexVal a
    let y ← hexVal b
    let r ← parseHexList rest
    pure ((x * 16 + y) :: r)

def parseBytes (s : String) : Option (List Nat) :=
  if s = "-" then some [] else if s.isEmpty then none else parseHexList s.toList

def hexDigit (n : Nat) : Char :=
  if n < 10 then Char.ofNat ('0'.toNat + n) else Char.ofNat ('a'.toNat + (n - 10))

def showBytes (bs : List Nat) : String :=
  if bs.isEmpty then "-" else
    String.ofList (bs.foldr (fun b acc => hexDigit (b / 16 % 16) :: hexDigit (b % 16) :: acc) [])

def parseKey (h b : String) : Option Key := do
  let hash ← h.toNat?
  let bytes ← parseBytes b
  pure { hash := hash, bytes := bytes }

def slotOf (m : Map) (k : Key) : Nat := (keyindex m k).getD 0

def dump (m : Map) : String := Id.run do
  let mut out := s!"cap={m.cap} len={m.len}"
  let mut i := 0
  for s in m.slots do
    match s with
    | some (k, v) => out := out ++ s!" {i}:{k.hash}:{showBytes k.bytes}:{v}"
    | none => pure ()
    i := i + 1
  return out

structure St where
  map : Map
  chain : Chain

def step (st : St) (toks : List String) : St × String :=
  match toks with
  | ["init", c] =>
    match c.toNat? with
    | some cap => ({ st with map := Map.init cap }, "ok")
    | none => (st, "bad-op")
  | ["put", h, b, v] =>
    match parseKey h b, v.toNat? with
    | some k, some v =>
      let chain := st.chain
      let m := Map.put st.map k v
      let out := s!"{m.len} {m.cap} {slotOf m k}"
      ({ map := m, chain := chain }, out)
    | _, _ => (st, "bad-op")
  | ["putkeep", h, b, v] =>
    match parseKey h b, v.toNat? with
    | some k, some v =>
      let chain := st.chain
      let r := Map.putKeep st.map k v
      let out := s!"{r.1.len} {r.1.cap} {slotOf r.1 k} {r.2}"
      ({ map := r.1, chain := chain }, out)
    | _, _ => (st, "bad-op")
  | ["get", h, b] =>
    match parseKey h b with
    | some k => let v := Map.get st.map k; (st, toString v)
    | none => (st, "bad-op")
  | ["dump"] => let s := dump st.map; (st, s)
  | ["mkscope"] => ({ st with chain := mkscope st.chain }, "ok")
  | ["delscope"] =>
    match st.chain with
    | _ :: _ :: _ => ({ st with chain := delscope st.chain }, "ok")
    | _ => (st, "bad-op")
  | ["putdecl", h, b, v] =>
    match parseKey h b, v.toNat? with
    | some k, some v =>
      let map := st.map
      ({ map := map, chain := putDecl st.chain k v }, "ok")
    | _, _ => (st, "bad-op")
  | ["puttag", h, b, v] =>
    match parseKey h b, v.toNat? with
    | some k, some v =>
      let map := st.map
      ({ map := map, chain := putTag st.chain k v }, "ok")
    | _, _ => (st, "bad-op")
  | ["getdecl", r, h, b] =>
    match parseKey h b with
    | some k =>
      if r = "0" then let v := getDecl st.chain k false; (st, toString v)
      else if r = "1" then let v := getDecl st.chain k true; (st, toString v)
      else (st, "bad-op")
    | none => (st, "bad-op")
  | ["gettag", r, h, b] =>
    match parseKey h b with
    | some k =>
      if r = "0" then let v := getTag st.chain k false; (st, toString v)
      else if r = "1" then let v := getTag st.chain k true; (st, toString v)
      else (st, "bad-op")
    | none => (st, "bad-op")
  | _ => (st, "bad-op")

partial def loop (hin hout : IO.FS.Stream) (st : St) : IO Unit := do
  let line ← hin.getLine
  if line.isEmpty then return ()
  let toks := line.trimAscii.toString.splitOn " "
  let (st', out) := step st toks
  hout.putStrLn out
  loop hin hout st'

end DrvC16

def main (_args : List String) : IO UInt32 := do
  let hin ← IO.getStdin
  let hout ← IO.getStdout
  DrvC16.loop hin hout { map := Map.init 8, chain := fileChain }
  hout.flush
  return 0

import CprocVerif.Model.PPLine
import CprocVerif.Spec.Presumed

/-! Line-protocol driver for property C11 (model of the location bookkeeping of scan.c + pp.c,
and the declarative presumed-location spec).

One output line per input line (input protocol of `harness/scan_h.c`):
* `pp <hex>` / `ppnl <hex>` (without / with `PPNEWLINE`) →
      `<tok> <tok> … [!<err>] | <spec> <spec> … | <dir> <dir> … | [<spec of the token of <err>>]`
  `<tok>`  = `<kind number>:<lit hex | ->:<file>:<line>.<col>:<space 0|1>`  (as the harness prints;
             `<file>` is `=` for `in.c`, else hex; `TOTHER` prints one byte of its spelling)
  `<err>`  = `<file>:<line>.<col>:<what>` with `<what>` one of `scan.<errkind>`,
             `expected.<kind number>.<afterHash|afterLine|afterDirective>`, `notimpl.<hex name>`,
             `invalid.<hex name>`, `unmodelled`, `fuel`; followed by `:<offset>.<kind number>` of the
             token whose location was passed to `error()` when there is one
  `<spec>` = `<offset>:<file>:<line>.<col>` — for each delivered token its byte offset and what
             `Spec/Presumed.lean` says about that offset, given the line directives `<dir>`
  `<dir>`  = `<endOff>:<line>:<file hex | ->`
  Line numbers are printed modulo 2^64 (`size_t` wrap-around of the C code).
* `raw <hex>` → the tokens of `Scan.tokensP` in the same token format (file always `=`)
* anything else → `bad-op`
-/

open CprocVerif CprocVerif.Scan CprocVerif.PPLine CprocVerif.Gen.TokenKinds

def hexDigit (c : Char) : Option Nat :=
  if '0' ≤ c ∧ c ≤ '9' then some (c.toNat - '0'.toNat)
  else if 'a' ≤ c ∧ c ≤ 'f' then some (c.toNat - 'a'.toNat + 10)
  else none

def parseHex (s : String) : Option (List UInt8) :=
  let rec go : List Char → List UInt8 → Option (List UInt8)
    | [], acc => some acc.reverse
    | [_], _ => none
    | a :: b :: r, acc =>
      match hexDigit a, hexDigit b with
      | some x, some y => go r ((x * 16 + y).toUInt8 :: acc)
      | _, _ => none
  go s.toList []

def hexOf (bs : List UInt8) : String :=
  let d (n : Nat) : Char := if n < 10 then Char.ofNat (48 + n) else Char.ofNat (87 + n)
  String.ofList (bs.foldr (fun b acc => d (b.toNat / 16) :: d (b.toNat % 16) :: acc) [])

def inC : List UInt8 := b!"in.c"

def showFile (f : List UInt8) : String := if f = inC then "=" else hexOf f

def wrap (n : Nat) : Nat := n % 2 ^ 64

def errName : ErrKind → String
  | .hexEscape => "hexEscape" | .escape => "escape" | .nlChar => "nlChar" | .nulChar => "nulChar"
  | .eofChar => "eofChar" | .nlStr => "nlStr" | .nulStr => "nulStr" | .eofStr => "eofStr"
  | .eofComment => "eofComment" | .fuel => "fuel"

def showTok (t : PTok) : String :=
  let lit := match t.lit with
    | none => "-"
    | some l => if t.kind = Kind.TOTHER then hexOf (l.take 1) else hexOf l
  s!"{t.kind.toNat}:{lit}:{showFile t.file}:{wrap t.line}.{t.col}:{if t.space then 1 else 0}"

def ctxName : Ctx → String
  | .afterHash => "afterHash" | .afterLine => "afterLine" | .afterDirective => "afterDirective"

def showKind : PErrKind → String
  | .scan k => "scan." ++ errName k
  | .expected w c => s!"expected.{w.toNat}.{ctxName c}"
  | .notImplemented n => "notimpl." ++ hexOf n
  | .invalidDirective n => "invalid." ++ hexOf n
  | .unmodelled => "unmodelled"
  | .fuel => "fuel"

def showErr (e : PErr) : String :=
  let base := s!"!{showFile e.file}:{wrap e.line}.{e.col}:{showKind e.kind}"
  match e.tok with
  | none => base
  | some t => base ++ s!":{t.off}.{t.kind.toNat}"

def toDir (d : Nat × Nat × Option (List UInt8)) : Spec.Presumed.LineDir := ⟨d.1, d.2.1, d.2.2⟩

def showSpec (text : List UInt8) (dirs : List Spec.Presumed.LineDir) (t : PTok) : String :=
  let f := Spec.Presumed.presumedFile inC dirs t.off
  let l := Spec.Presumed.presumedLine text dirs t.off
  let c := Spec.Presumed.column text t.off
  s!"{t.off}:{showFile f}:{wrap l}.{c}"

def showDir (d : Nat × Nat × Option (List UInt8)) : String :=
  s!"{d.1}:{wrap d.2.1}:" ++ (match d.2.2 with | none => "-" | some f => "h" ++ hexOf f)

def showRun (text : List UInt8) (r : Run) : String :=
  let toks := " ".intercalate (r.toks.map showTok)
  let toks := match r.err with
    | none => toks
    | some e => if toks.isEmpty then showErr e else toks ++ " " ++ showErr e
  let dirs := r.dirs.map toDir
  let spec := " ".intercalate (r.toks.map (showSpec text dirs))
  let ds := " ".intercalate (r.dirs.map showDir)
  let es := match r.err with
    | none => ""
    | some e => match e.tok with
      | none => ""
      | some t => showSpec text dirs t
  toks ++ " | " ++ spec ++ " | " ++ ds ++ " | " ++ es

def showRawTok (t : Token) : String :=
  let lit := match t.lit with
    | none => "-"
    | some l => if t.kind = Kind.TOTHER then hexOf (l.take 1) else hexOf l
  s!"{t.kind.toNat}:{lit}:=:{t.loc.line}.{t.loc.col}:{if t.space then 1 else 0}"

def showRaw (r : List Token × Option Err) : String :=
  let toks := " ".intercalate (r.1.map showRawTok)
  match r.2 with
  | none => toks
  | some e => toks ++ s!" !=:{e.loc.line}.{e.loc.col}:scan.{errName e.kind}"

def step (line : String) : String :=
  let go (op : String) (bs : List UInt8) : String :=
    if op = "pp" then showRun bs (run false inC bs)
    else if op = "ppnl" then showRun bs (run true inC bs)
    else if op = "raw" then showRaw (tokensP bs)
    else "bad-op"
  match line.trimAscii.toString.splitOn " " with
  | [op] => go op []
  | [op, h] =>
    match parseHex h with
    | some bs => go op bs
    | none => "bad-op"
  | _ => "bad-op"

partial def loop (stdin stdout : IO.FS.Stream) : IO Unit := do
  let line ← stdin.getLine
  if line.isEmpty then
    return ()
  stdout.putStrLn (step line)
  loop stdin stdout

def main (_args : List String) : IO UInt32 := do
  let stdin ← IO.getStdin
  let stdout ← IO.getStdout
  loop stdin stdout
  stdout.flush
  return 0

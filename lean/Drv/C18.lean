import CprocVerif.Model.DriverFail

/-! Line-protocol driver for property C18 (model of the driver's failure handling,
`CprocVerif.DriverFail.run`).

One input line = one scenario, tokens separated by blanks:
* `L0` | `L1`                      last stage is not / is LINK
* `P<n>,<bits>,<c>,<reaps>`        one pipeline: `n` stages, `bits` = posix_spawn result per stage
                                   (`1` ok, `0` fails), `c` = `1` if the tool creates the output,
                                   `reaps` = `-` or `stage:o|f` joined by `/` (order of wait() results)
* `K<s><o|f><c>`                   link step: spawn result, exit status class, output created
Output: `{"exit":0|1|null,"link":b,"temps":[…],"outputs":[…],"live":[[p,s]…],
          "signalled":[[p,s]…],"started":[[p,s]…],"finished":[[p,s]…]}`; `bad-op` otherwise.
-/

open CprocVerif.DriverFail

def parseReaps (s : String) : Option (List Reap) :=
  if s == "-" then some []
  else (s.splitOn "/").mapM fun r =>
    match r.splitOn ":" with
    | [a, "o"] => a.toNat?.map (⟨·, .ok⟩)
    | [a, "f"] => a.toNat?.map (⟨·, .fail⟩)
    | _ => none

def parsePipe (s : String) : Option PipeScript :=
  match s.splitOn "," with
  | [n, bits, c, reaps] =>
    match n.toNat?, parseReaps reaps with
    | some n, some rs => some { n := n, spawnOk := bits.toList.map (· == '1'), reaps := rs, created := c == "1" }
    | _, _ => none
  | _ => none

def parseLine (line : String) : Option Script :=
  let toks := (line.trimAscii.toString.splitOn " ").filter (· != "")
  let go := toks.foldl (fun (acc : Option Script) tok =>
    acc.bind fun sc =>
      match tok.toList with
      | ['L', b] => some { sc with link := b == '1' }
      | 'P' :: rest => (parsePipe (String.ofList rest)).map fun p => { sc with pipes := sc.pipes ++ [p] }
      | ['K', s, st, c] => some { sc with linkSpawnOk := s == '1', linkStatus := if st == 'o' then .ok else .fail, linkCreated := c == '1' }
      | _ => none) (some { link := false, pipes := [], linkSpawnOk := true, linkStatus := .ok, linkCreated := true })
  go

def natsJ (l : List Nat) : String := "[" ++ ",".intercalate (l.map toString) ++ "]"
def pairsJ (l : List (Nat × Nat)) : String :=
  "[" ++ ",".intercalate (l.map fun p => "[" ++ toString p.1 ++ "," ++ toString p.2 ++ "]") ++ "]"

def outcomeJ (o : Outcome) : String :=
  "{\"exit\":" ++ (match o.exit with | some n => toString n | none => "null") ++
  ",\"link\":" ++ (if o.linkSpawned then "true" else "false") ++
  ",\"temps\":" ++ natsJ o.files.temps ++ ",\"outputs\":" ++ natsJ o.files.outputs ++
  ",\"live\":" ++ pairsJ o.live ++ ",\"signalled\":" ++ pairsJ o.signalled ++
  ",\"started\":" ++ pairsJ o.started ++ ",\"finished\":" ++ pairsJ o.finished ++ "}"

partial def loop (stdin stdout : IO.FS.Stream) : IO Unit := do
  let line ← stdin.getLine
  if line.isEmpty then
    return ()
  match parseLine line with
  | some sc => stdout.putStrLn (outcomeJ (run sc))
  | none => stdout.putStrLn "bad-op"
  loop stdin stdout

def main (_args : List String) : IO UInt32 := do
  let stdin ← IO.getStdin
  let stdout ← IO.getStdout
  loop stdin stdout
  stdout.flush
  return 0

import CprocVerif.Gen.ErrorSites
import CprocVerif.Gen.C10Catalogue
import CprocVerif.Model.Sites

/-! Driver for property C10.

`drv_c10 sites` prints the coverage facts computed from the generated tables (string keys AND their
numeric codes, which the theorems of `Props/C10.lean` are stated over):
```
sites <n>
entries <n>
class <c> <n>            (c = 0, 1, 2)
codes-consistent <true|false>    the numeric tables are `keyCode` of the string tables
uncovered <file>|<function>|<format>   one line per site without a catalogue entry
stale <file>|<function>|<format>       one line per catalogue entry without a site
```
-/

open CprocVerif.Gen CprocVerif.Sites

def keyStr (k : Key) : String := k.1 ++ "|" ++ k.2.1 ++ "|" ++ k.2.2

def oneLine (s : String) : String := (s.replace "\n" "\\n").replace "\t" "\\t"

def sitesMode : IO UInt32 := do
  let sites := ErrorSites.sites
  let ents := C10Catalogue.entries
  IO.println s!"sites {sites.length}"
  IO.println s!"entries {ents.length}"
  for c in [0, 1, 2] do
    IO.println s!"class {c} {(ents.filter (·.2 == c)).length}"
  let sc := (sites.map keyCode).toArray.qsort (· < ·) |>.toList
  let ec := (ents.map (fun e => (keyCode e.1, e.2))).toArray.qsort (fun a b => a.1 < b.1) |>.toList
  let cons := sc == ErrorSites.codes && ec == C10Catalogue.codes &&
    (countClass 0 C10Catalogue.codes, countClass 1 C10Catalogue.codes, countClass 2 C10Catalogue.codes)
      == C10Catalogue.classCounts
  IO.println s!"codes-consistent {cons}"
  IO.println s!"code-uncovered {(missing ErrorSites.codes (C10Catalogue.codes.map (·.1))).length}"
  IO.println s!"code-stale {(missing (C10Catalogue.codes.map (·.1)) ErrorSites.codes).length}"
  for k in missingKeys sites (ents.map (·.1)) do
    IO.println ("uncovered " ++ oneLine (keyStr k))
  for k in missingKeys (ents.map (·.1)) sites do
    IO.println ("stale " ++ oneLine (keyStr k))
  return 0

def main (args : List String) : IO UInt32 := do
  match args with
  | ["sites"] => sitesMode
  | _ =>
    IO.eprintln "usage: drv_c10 sites"
    return 2

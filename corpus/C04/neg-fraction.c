// expect: data \$x = align 4 \{ w 0, \}
unsigned x = (unsigned)-0.5;

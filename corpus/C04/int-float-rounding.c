// expect: data \$f = align 4 \{ s s_1\.1529216420458004e\+18, \}
float f = 1152921573326323713L;

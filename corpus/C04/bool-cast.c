// expect: data \$b = align 1 \{ b 1, \}.*data \$c = align 1 \{ b 1, \}.*data \$n = align 8 \{ l 1, \}
_Bool b = (_Bool)256; _Bool c = 0.5; char a[(_Bool)3]; unsigned long n = sizeof a; _Static_assert((_Bool)256 == 1, "");

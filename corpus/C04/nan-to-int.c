// expect-error: cannot be represented
long x = (long)(0.0/0.0);

// expect: data \$x = align 4 \{ w 1, \}.*data \$y = align 4 \{ w 1, \}.*data \$z = align 4 \{ w 0, \}
int x = 5||0; int y = 0.5 && 1; int z = 0 || 0.0;

// expect-error: too large
unsigned long x = 18446744073709551616u;

// expect: data \$g = align 4 \{ w 0, \}.*data \$d = align 8 \{ d d_0\.10000000149011612, \}
int g = 0.1f == 0.1; double d = 0.1f;

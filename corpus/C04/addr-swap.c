// expect: data \$x = align 8 \{ l \$a \+ 17, \}
int a[10]; long x = 5 + (long)&a[3];

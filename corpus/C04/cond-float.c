// expect: data \$x = align 4 \{ w 1, \}
int x = 0.5 ? 1 : 2;

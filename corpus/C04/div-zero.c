// expect-error: not a constant expression
int x = 1/0;

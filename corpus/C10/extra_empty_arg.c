/* fid: extra-empty-arg-accepted (fixed 09a3a09); msg: too many arguments for macro 'F' */
#define F(a) [a]
int x = F(1,);

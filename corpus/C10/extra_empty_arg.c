/* fid: extra-empty-arg-accepted (fixed bf7cc8d); msg: too many arguments for macro 'F' */
#define F(a) [a]
int x = F(1,);

/* fid: incomplete-parameter-in-definition (fixed 6b0fa3f), the form that aborted in funcalloc; msg: parameter of function definition has incomplete type */
void f(void b) { }

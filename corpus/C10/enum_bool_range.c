/* fid: enum-bool-range (fixed 08f8fa4); msg: enumerator 'A' value cannot be represented in underlying type */
enum E : _Bool { A = 2 };

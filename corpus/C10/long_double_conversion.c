/* fid: long-double-conversion (fixed a8d3b67); msg: long double is not yet supported */
double f(double x){ return (long double)x; }

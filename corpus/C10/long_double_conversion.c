/* fid: long-double-conversion (fixed e424260); msg: long double is not yet supported */
double f(double x){ return (long double)x; }

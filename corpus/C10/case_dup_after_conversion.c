/* fid: case-dup-after-conversion (fixed 4f4b330); msg: multiple 'case' labels with same value */
int f(int x){switch(x){case 0: return 1; case 0x100000000: return 2;} return 0;}

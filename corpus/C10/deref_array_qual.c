/* fid: deref-array-qual (fixed 3bfdead); msg: cannot store to 'const' object */
const int carr[2] = {1,2}; void f(void) { *carr = 5; }

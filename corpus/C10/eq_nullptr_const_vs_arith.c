/* fid: eq-nullptr-const-vs-arith (fixed 826c347); msg: invalid operands to '==' operator */
int f(double d){ return (void*)0 == d; }

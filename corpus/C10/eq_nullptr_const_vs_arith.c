/* fid: eq-nullptr-const-vs-arith (fixed 2e6f4ec); msg: invalid operands to '==' operator */
int f(double d){ return (void*)0 == d; }

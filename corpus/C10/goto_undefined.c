/* fid: goto-undefined (fixed c4b077c); msg: label 'nowhere' is used but not defined */
void f(void){goto nowhere;}

/* fid: flexible-struct-array-element (fixed 878d11a); msg: array element contains flexible array member */
struct F { int n; int a[]; }; struct F fa[2];

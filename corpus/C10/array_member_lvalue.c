/* fid: array-member-lvalue (fixed 71be578); msg: left side of assignment expression is not an lvalue */
struct S {int m[4];}; void f(struct S *p){ p->m += 2; }

/* fid: bitwise-operand-unchecked (fixed 6e57e5d); msg: operands to '&' operator must be integer */
double d = 1.0 & 2;

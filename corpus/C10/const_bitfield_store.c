/* fid: const-bitfield-store (fixed 71be578); msg: cannot store to 'const' object */
struct S {const unsigned b:3;} s; void f(void){ s.b = 1; }

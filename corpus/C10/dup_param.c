/* fid: dup-param-accepted (fixed e1e687a); msg: duplicate macro parameter 'x' */
#define F(x,x) x

/* fid: dup-param-accepted (fixed 5e1cf9d); msg: duplicate macro parameter 'x' */
#define F(x,x) x

/* fid: assign-operator-unchecked (fixed 132893c); msg: assignment to pointer must be from pointer or null pointer constant */
int *p; int x; void f(void){ p = x; }

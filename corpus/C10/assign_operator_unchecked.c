/* fid: assign-operator-unchecked (fixed 7e9d66c); msg: assignment to pointer must be from pointer or null pointer constant */
int *p; int x; void f(void){ p = x; }

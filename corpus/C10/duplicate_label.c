/* fid: duplicate-label (fixed ed9d2cc); msg: duplicate label 'a' */
void f(void){a: a: ;}

/* fid: va-args-first-token-unchecked (fixed 360707e); msg: __VA_ARGS__ can only be used in variadic function-like macros */
#define A __VA_ARGS__
A

/* fid: va-args-first-token-unchecked (fixed 40f4bc5); msg: __VA_ARGS__ can only be used in variadic function-like macros */
#define A __VA_ARGS__
A

/* fid: variadic-too-few-args (fixed 49541f0); msg: not enough arguments for function call */
int g(int, int, ...); int f(void){ return g(1); }

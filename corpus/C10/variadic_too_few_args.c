/* fid: variadic-too-few-args (fixed e3588ce); msg: not enough arguments for function call */
int g(int, int, ...); int f(void){ return g(1); }

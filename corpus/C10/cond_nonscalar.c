/* fid: cond-nonscalar-abort (fixed 98b06a1); msg: first operand of conditional operator must have scalar type */
struct S {int a;} s; int f(void){ return s ? 1 : 2; }

/* fid: incomplete-parameter-in-definition (fixed 6b0fa3f); msg: parameter of function definition has incomplete type */
struct S; void f(struct S s) { }

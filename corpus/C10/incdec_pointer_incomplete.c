/* fid: incdec-pointer-incomplete (fixed df57034); msg: pointer operand of '\+\+' operator must be to complete object type */
void f(void *p){ p++; }

/* fid: incdec-pointer-incomplete (fixed 93895c0); msg: pointer operand of '\+\+' operator must be to complete object type */
void f(void *p){ p++; }

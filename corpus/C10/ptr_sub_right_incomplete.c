/* fid: ptr-sub-right-incomplete (fixed 802a13f); msg: pointer operand to '-' must be to complete object type */
int (*p)[3]; int (*q)[]; long f(void){ return p - q; }

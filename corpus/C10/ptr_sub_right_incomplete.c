/* fid: ptr-sub-right-incomplete (fixed ac293b9); msg: pointer operand to '-' must be to complete object type */
int (*p)[3]; int (*q)[]; long f(void){ return p - q; }

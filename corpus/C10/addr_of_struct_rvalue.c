/* fid: addr-of-struct-rvalue (fixed fcded40); msg: '&' operand is not an lvalue or function designator */
struct S {int a;}; struct S g(void); void f(void){ &g(); }

/* fid: volatile-incdec-store (fixed b1dc71f); msg: volatile store is not yet supported */
volatile int v; void f(void){ v++; }

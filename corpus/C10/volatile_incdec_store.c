/* fid: volatile-incdec-store (fixed aa26fd4); msg: volatile store is not yet supported */
volatile int v; void f(void){ v++; }

/* fid: cond-const-lvalue (fixed f22c49c); msg: left side of assignment expression is not an lvalue */
int x, y; void f(void){ (1 ? x : y) = 3; }

..\
x
 y
#line 5 "g.c"

#line 9 x

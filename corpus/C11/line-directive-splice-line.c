# 10 "foo.c"
\
int x = y;

#line 010
int x = y;

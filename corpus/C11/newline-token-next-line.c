#line

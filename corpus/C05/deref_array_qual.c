/* fixed by 3bfdead: *carr lost the element qualifiers.  expect: k=2 */
const int carr[2] = {1, 2};
int k = _Generic(&*carr, int *: 1, const int *: 2, default: 3);

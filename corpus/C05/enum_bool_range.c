/* fixed by 08f8fa4 (finding enum-bool-range): an enumeration with underlying type _Bool holds only 0 and 1.
   expect-reject: enumerator 'A' value cannot be represented in underlying type */
enum E : _Bool { A = 2 };
int x = A;

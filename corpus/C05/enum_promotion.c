/* defect fixed by 3c7c8ce: integer promotion of an enum operand kept the enum type.
   expect: x1=1 x2=1 x3=1 x4=1 x5=1 x6=1 x7=1 */
enum E {A} e; enum F {B}; enum G {GN=-1} g; enum H {HN=-1};
int x1 = __builtin_types_compatible_p(typeof(+e), enum F);
int x2 = __builtin_types_compatible_p(typeof(-e), enum F);
int x3 = __builtin_types_compatible_p(typeof(e<<1), enum F);
int x4 = __builtin_types_compatible_p(typeof(~e), enum F);
int x5 = __builtin_types_compatible_p(typeof(1?e:e), enum F);
int x6 = __builtin_types_compatible_p(typeof(+g), enum H);
int x7 = __builtin_types_compatible_p(typeof(0?1:g), enum H);

/* fixed by 8619181: (const void *)0 is not a null pointer constant.  expect: x1=2 x2=1 */
int *p; int c;
int x1 = _Generic(c ? (const void*)0 : p, int*: 1, const void*: 2, default: 3);
int x2 = _Generic(c ? (void*)0 : p, int*: 1, void*: 2, default: 3);

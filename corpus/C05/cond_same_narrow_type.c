/* DESIGN #21, fixed by d72f7d0: c ? s : s kept type short.  expect: k=1 z=4 */
short s; int c;
int k = _Generic((c ? s : s), int: 1, short: 2, default: 3);
unsigned long z = sizeof(c ? s : s);

/* fixed by 6d47956 (C23 fixed underlying type): typecommonreal died.  expect: s=8 k=2 */
enum E : long long { A } e; unsigned long u;
unsigned long s = sizeof(e + u);
int k = _Generic(e + u, unsigned long: 1, unsigned long long: 2, default: 3);

/* known finding qualified-array-type (6.7.3p9): C11 says k=1 k2=1; cproc gives 2.
   fid: qualified-array-type
   expect: k=1 k2=1 */
struct S { short a[2]; }; const struct S cs;
int k = _Generic(&cs.a, const short (*)[2]: 1, default: 2);
typedef short A[2]; const A ca = {1, 2};
int k2 = _Generic(&ca, const short (*)[2]: 1, default: 2);

/* the valid counterpart of enum_bool_range.c.  expect: x=1 y=0 */
enum E : _Bool { T = 1, F = 0 };
int x = T;
int y = F;

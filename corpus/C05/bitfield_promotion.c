/* bit-field promotions by width, all cases of tests bitfield-integer-promotion*.c and more.
   expect: a=1 b=2 c=1 d=1 e=2 f=3 g=1 h=4 */
struct { unsigned u31:31; unsigned u32:32; long l31:31; long l32:32; unsigned long ul32:32; long l33:33; _Bool b:1;
         unsigned long ul33:33; } s;
#define T(x) _Generic(x, int: 1, unsigned: 2, long: 3, unsigned long: 4, default: 9)
int a = T(+s.u31); int b = T(+s.u32); int c = T(+s.l31); int d = T(+s.l32); int e = T(+s.ul32); int f = T(+s.l33);
int g = T(+s.b); int h = T(+s.ul33);

#define I {.a = 1, .b = 2}
struct S {int a, b;} x = I, y = I;

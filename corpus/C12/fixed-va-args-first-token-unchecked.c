#define A __VA_ARGS__
A

#define f(a,b) a b
#define g(a) [a]
g(,) f(,,) f(1,2,)

#define T int
T a; T b;

#define F(a) [a]
F(1,)

#define F(x) x
#define G F
G F ;
F(G)(2) G(3)

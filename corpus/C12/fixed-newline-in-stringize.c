#define S(x) #x
#define T(y) S(a
y
 b)
T(c) S(
 p

 q
)

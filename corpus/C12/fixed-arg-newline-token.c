#define F(x) x
#define G(y) y (1)
G(F
)

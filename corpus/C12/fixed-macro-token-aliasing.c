#define A B
#define B A
A
B

#define F(x,x) x
F(1,2)
